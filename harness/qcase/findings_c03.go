package qcase

// Exclusion predicates contributed by the C03 check (findings.go holds those of C01/C02; kept in a file
// of their own so that neither side overwrites the other): one named, syntactic predicate over the
// parsed Cypher model per OPEN finding of /verif/harness/props/TRANSLATION_FINDINGS.md. A check wires a
// predicate in behind evid.R.KnownOpen("<id>"): a matching case is not evaluated, it is counted as excluded.
//
// The helpers below (clause list, reflection walk with ancestors) are deliberately independent of
// DAWGS's own walkers.

import (
	"reflect"
	"strings"

	"github.com/specterops/dawgs/cypher/models/cypher"
)

// ---- model helpers -------------------------------------------------------------------------------

// C03Clause is one clause of a query in source order.
type C03Clause struct {
	Part    int    // index of the query part (parts are separated by WITH)
	Kind    string // match | unwind | update | with | return
	Match   *cypher.Match
	Unwind  *cypher.Unwind
	Update  cypher.Expression // *cypher.UpdatingClause or its clause
	With    *cypher.With
	Return  *cypher.Return
	Node    any // the model node itself
	LastOfQ bool
}

// Clauses flattens a query into its clauses in source order.
func C03Clauses(q *cypher.RegularQuery) []C03Clause {
	var out []C03Clause
	if q == nil || q.SingleQuery == nil {
		return nil
	}
	addReading := func(part int, rcs []*cypher.ReadingClause) {
		for _, rc := range rcs {
			switch {
			case rc == nil:
			case rc.Match != nil:
				out = append(out, C03Clause{Part: part, Kind: "match", Match: rc.Match, Node: rc.Match})
			case rc.Unwind != nil:
				out = append(out, C03Clause{Part: part, Kind: "unwind", Unwind: rc.Unwind, Node: rc.Unwind})
			}
		}
	}
	single := func(part int, sp *cypher.SinglePartQuery) {
		if sp == nil {
			return
		}
		addReading(part, sp.ReadingClauses)
		for _, u := range sp.UpdatingClauses {
			out = append(out, C03Clause{Part: part, Kind: "update", Update: u, Node: u})
		}
		if sp.Return != nil {
			out = append(out, C03Clause{Part: part, Kind: "return", Return: sp.Return, Node: sp.Return})
		}
	}
	switch {
	case q.SingleQuery.MultiPartQuery != nil:
		mp := q.SingleQuery.MultiPartQuery
		for i, p := range mp.Parts {
			if p == nil {
				continue
			}
			addReading(i, p.ReadingClauses)
			for _, u := range p.UpdatingClauses {
				out = append(out, C03Clause{Part: i, Kind: "update", Update: u, Node: u})
			}
			if p.With != nil {
				out = append(out, C03Clause{Part: i, Kind: "with", With: p.With, Node: p.With})
			}
		}
		single(len(mp.Parts), mp.SinglePartQuery)
	case q.SingleQuery.SinglePartQuery != nil:
		single(0, q.SingleQuery.SinglePartQuery)
	}
	return out
}

// C03WalkModel visits every model node (pointers to structs of the cypher model package) reachable from
// root, handing the visitor the node and its ancestors (outermost first). Returning false prunes.
func C03WalkModel(root any, visit func(node any, ancestors []any) bool) {
	seen := map[uintptr]bool{}
	var walk func(v reflect.Value, anc []any)
	walk = func(v reflect.Value, anc []any) {
		switch v.Kind() {
		case reflect.Ptr:
			if v.IsNil() {
				return
			}
			if v.Elem().Kind() == reflect.Struct && strings.HasSuffix(v.Elem().Type().PkgPath(), "cypher/models/cypher") {
				if seen[v.Pointer()] {
					return
				}
				seen[v.Pointer()] = true
				node := v.Interface()
				if !visit(node, anc) {
					return
				}
				walk(v.Elem(), append(append([]any(nil), anc...), node))
				return
			}
			walk(v.Elem(), anc)
		case reflect.Interface:
			if !v.IsNil() {
				walk(v.Elem(), anc)
			}
		case reflect.Struct:
			for i := 0; i < v.NumField(); i++ {
				if v.Type().Field(i).IsExported() || v.Type().Field(i).Anonymous {
					walk(v.Field(i), anc)
				}
			}
		case reflect.Slice, reflect.Array:
			for i := 0; i < v.Len(); i++ {
				walk(v.Index(i), anc)
			}
		case reflect.Map:
			it := v.MapRange()
			for it.Next() {
				walk(it.Value(), anc)
			}
		}
	}
	walk(reflect.ValueOf(root), nil)
}

// Contains reports whether some node below root satisfies pred.
func c03Contains(root any, pred func(node any) bool) bool {
	found := false
	C03WalkModel(root, func(n any, _ []any) bool {
		if found {
			return false
		}
		if pred(n) {
			found = true
			return false
		}
		return true
	})
	return found
}

// c03VariablesIn lists the distinct variable symbols that occur below root (declarations and uses).
func c03VariablesIn(root any) map[string]bool {
	out := map[string]bool{}
	C03WalkModel(root, func(n any, _ []any) bool {
		if v, ok := n.(*cypher.Variable); ok && v != nil && v.Symbol != "" {
			out[v.Symbol] = true
		}
		return true
	})
	return out
}

// c03PatternVariables lists the variables a pattern declares or re-uses: node, relationship and path variables.
func c03PatternVariables(parts []*cypher.PatternPart) map[string]bool {
	out := map[string]bool{}
	for _, p := range parts {
		if p == nil {
			continue
		}
		if p.Variable != nil {
			out[p.Variable.Symbol] = true
		}
		for _, el := range p.PatternElements {
			if el == nil {
				continue
			}
			if np, ok := el.AsNodePattern(); ok && np.Variable != nil {
				out[np.Variable.Symbol] = true
			}
			if rp, ok := el.AsRelationshipPattern(); ok && rp.Variable != nil {
				out[rp.Variable.Symbol] = true
			}
		}
	}
	return out
}

func c03IsFunction(n any, names ...string) bool {
	f, ok := n.(*cypher.FunctionInvocation)
	if !ok || f == nil {
		return false
	}
	for _, name := range names {
		if strings.EqualFold(f.Name, name) {
			return true
		}
	}
	return false
}

func c03IsPatternPredicate(n any) bool { _, ok := n.(*cypher.PatternPredicate); return ok }
func c03IsQuantifier(n any) bool       { _, ok := n.(*cypher.Quantifier); return ok }

// c03PathVariables lists the path variables declared by the MATCH clauses of a query.
func c03PathVariables(cs []C03Clause) map[string]bool {
	out := map[string]bool{}
	for _, c := range cs {
		if c.Match != nil {
			for _, p := range c.Match.Pattern {
				if p != nil && p.Variable != nil {
					out[p.Variable.Symbol] = true
				}
			}
		}
	}
	return out
}

func c03WhereOf(m *cypher.Match) any {
	if m == nil || m.Where == nil {
		return nil
	}
	return m.Where
}

// c03PartEndsWithWith reports whether the query part of clause i ends in a WITH.
func c03PartEndsWithWith(cs []C03Clause, i int) bool {
	for j := i + 1; j < len(cs); j++ {
		if cs[j].Part != cs[i].Part {
			return false
		}
		if cs[j].Kind == "with" {
			return true
		}
	}
	return false
}

// ---- open findings of C03 ------------------------------------------------------------------------

// C03Finding pairs the id of an open finding with the predicate that recognises its shape.
type C03Finding struct {
	ID   string
	Pred func(q *cypher.RegularQuery) bool
}

// C03OpenFindings lists the predicates in the order they are tried.
var C03OpenFindings = []C03Finding{
	{"C03-optional-match-without-join-key", C03OptionalMatchWithoutJoinKey},
	{"C03-optional-match-with-pattern-predicate", C03OptionalMatchWithPatternPredicate},
	{"C03-unwind-before-optional-match", C03UnwindBeforeOptionalMatch},
	{"C03-subselect-predicate-before-with", C03SubselectPredicateBeforeWith},
	{"C03-distinct-order-by-unprojected", C03DistinctOrderByUnprojected},
	{"C03-shortest-path-bound-endpoint-filter", C03ShortestPathBoundEndpoint},
	{"C03-shortest-path-same-endpoints", C03ShortestPathSameEndpoints},
	{"C03-update-value-reads-stale-frame", C03UpdateValueReadsStaleFrame},
	{"C03-pattern-predicate-with-update", C03PatternPredicateWithUpdate},
	{"C03-unwind-with-update", C03UnwindWithUpdate},
	{"C03-path-with-update", C03PathWithUpdate},
}

// C03ExcludedBy returns the id of the first open finding whose shape the query has ("" = none).
func C03ExcludedBy(q *cypher.RegularQuery, open func(id string) bool) string {
	for _, f := range C03OpenFindings {
		if open(f.ID) && f.Pred(q) {
			return f.ID
		}
	}
	return ""
}

// c03NonFirstOptional lists the indices of the OPTIONAL MATCH clauses that have a clause before them
// (a leading OPTIONAL MATCH is translated as a plain MATCH).
func c03NonFirstOptional(cs []C03Clause) []int {
	var out []int
	for i, c := range cs {
		if i > 0 && c.Match != nil && c.Match.Optional {
			out = append(out, i)
		}
	}
	return out
}

// C03OptionalMatchWithoutJoinKey: an OPTIONAL MATCH is joined back to the rows before it on the
// bindings those rows export (`s0 left outer join s1 on s0.n0 = s1.n0`). The frame before it exports
// only what later clauses read (projection pruning), so when nothing bound earlier in the query part
// is read by the OPTIONAL MATCH or anything after it, the join has no condition at all and the text is
// `left outer join s1)`. Shape: a non-leading OPTIONAL MATCH such that no variable bound by the
// preceding clauses of its query part occurs in it or later in that part. Not narrower: which bindings
// survive pruning is decided per query part from exactly this occurrence test.
func C03OptionalMatchWithoutJoinKey(q *cypher.RegularQuery) bool {
	cs := C03Clauses(q)
	for _, i := range c03NonFirstOptional(cs) {
		before := map[string]bool{}
		for j := 0; j < i; j++ {
			if cs[j].Part != cs[i].Part {
				// what an earlier part hands over is what its WITH projects
				if cs[j].With != nil && j+1 <= i && cs[j].Part == cs[i].Part-1 {
					for v := range c03WithExports(cs[j].With) {
						before[v] = true
					}
				}
				continue
			}
			for v := range c03VariablesIn(cs[j].Node) {
				before[v] = true
			}
		}
		used := false
		for j := i; j < len(cs) && cs[j].Part == cs[i].Part; j++ {
			for v := range c03VariablesIn(cs[j].Node) {
				if before[v] {
					used = true
				}
			}
		}
		if !used {
			return true
		}
	}
	return false
}

// c03WithExports lists the names a WITH hands to the next part.
func c03WithExports(w *cypher.With) map[string]bool {
	out := map[string]bool{}
	if w == nil || w.Projection == nil {
		return out
	}
	for _, it := range w.Projection.Items {
		pi, ok := it.(*cypher.ProjectionItem)
		if !ok || pi == nil {
			continue
		}
		if pi.Alias != nil {
			out[pi.Alias.Symbol] = true
		} else if v, isVar := pi.Expression.(*cypher.Variable); isVar && v != nil {
			out[v.Symbol] = true
		}
	}
	return out
}

// C03OptionalMatchWithPatternPredicate: a pattern predicate is rendered as a sub-query against the
// frame that is current when its MATCH is translated, but the OPTIONAL MATCH machinery then inserts an
// aggregation frame (`sK as (select … from sI left outer join sJ …)`) and the predicate is placed in a
// select that reads only from the aggregation frame, so its references to sI / sJ dangle. Shape: a query
// part that contains a non-leading OPTIONAL MATCH and a pattern predicate in the WHERE of one of its
// MATCH clauses. Not narrower: predicates of the MATCH before the OPTIONAL MATCH are deferred past it too.
func C03OptionalMatchWithPatternPredicate(q *cypher.RegularQuery) bool {
	cs := C03Clauses(q)
	for _, i := range c03NonFirstOptional(cs) {
		for j := range cs {
			if cs[j].Part == cs[i].Part && cs[j].Match != nil && c03Contains(c03WhereOf(cs[j].Match), c03IsPatternPredicate) {
				return true
			}
		}
	}
	return false
}

// C03UnwindBeforeOptionalMatch: an UNWIND is rendered as a FROM item of the next frame, not as a column
// of the frame before it, yet the OPTIONAL MATCH join and projections read the unwound value as a column
// of that earlier frame (`s0.i0`). Shape: a query part with an UNWIND followed by a non-leading OPTIONAL MATCH.
func C03UnwindBeforeOptionalMatch(q *cypher.RegularQuery) bool {
	cs := C03Clauses(q)
	for _, i := range c03NonFirstOptional(cs) {
		for j := 0; j < i; j++ {
			if cs[j].Part == cs[i].Part && cs[j].Kind == "unwind" {
				return true
			}
		}
	}
	return false
}

// C03SubselectPredicateBeforeWith: a WHERE conjunct is attached to the first frame that defines every
// identifier its SQL form mentions. For labels(n), quantifiers and path functions the SQL form contains a
// sub-select whose own aliases (_kind, _kind_idx, the unnest alias) and table names are counted as if the
// enclosing query had to define them, so no frame ever qualifies and the conjunct is only placed by the
// final "consume everything" step – after a WITH has pruned the bindings it reads (`n0.kind_ids` with no
// n0 in scope). Shape: a MATCH in a query part that ends in WITH whose WHERE contains labels(), a
// quantifier, or a reference to a path variable.
func C03SubselectPredicateBeforeWith(q *cypher.RegularQuery) bool {
	cs := C03Clauses(q)
	paths := c03PathVariables(cs)
	for i, c := range cs {
		if c.Match == nil || c.Match.Where == nil || !c03PartEndsWithWith(cs, i) {
			continue
		}
		if c03Contains(c.Match.Where, func(n any) bool {
			if c03IsFunction(n, "labels") || c03IsQuantifier(n) {
				return true
			}
			if v, ok := n.(*cypher.Variable); ok && v != nil && paths[v.Symbol] {
				return true
			}
			return false
		}) {
			return true
		}
	}
	return false
}

// C03DistinctOrderByUnprojected: `RETURN DISTINCT n ORDER BY n.name` is emitted as `select distinct s0.n0
// … order by (s0.n0).properties -> 'name'`; PostgreSQL requires every ORDER BY expression of a SELECT
// DISTINCT to appear in the select list. Shape: a DISTINCT projection with a sort key that is neither one
// of its items nor one of its aliases.
func C03DistinctOrderByUnprojected(q *cypher.RegularQuery) bool {
	found := false
	C03WalkModel(q, func(n any, _ []any) bool {
		p, ok := n.(*cypher.Projection)
		if !ok || p == nil || !p.Distinct || p.Order == nil {
			return true
		}
		var items []any
		aliases := map[string]bool{}
		for _, it := range p.Items {
			if pi, isItem := it.(*cypher.ProjectionItem); isItem && pi != nil {
				items = append(items, pi.Expression)
				if pi.Alias != nil {
					aliases[pi.Alias.Symbol] = true
				}
			}
		}
		for _, si := range p.Order.Items {
			if si == nil {
				continue
			}
			if v, isVar := si.Expression.(*cypher.Variable); isVar && v != nil && aliases[v.Symbol] {
				continue
			}
			same := false
			for _, it := range items {
				if reflect.DeepEqual(it, si.Expression) {
					same = true
				}
			}
			if !same {
				found = true
			}
		}
		return true
	})
	return found
}

// C03ShortestPathBoundEndpoint: for shortestPath / allShortestPaths with an endpoint bound by an earlier
// clause, the ids of the bound endpoint are handed to the harness function as SQL text (`insert into
// traversal_root_filter select … from s0`). The harness runs that text with EXECUTE inside plpgsql, where
// the CTEs of the calling statement do not exist. Shape: a shortest-path pattern part one of whose endpoint
// variables occurs in an earlier clause.
func C03ShortestPathBoundEndpoint(q *cypher.RegularQuery) bool {
	cs := C03Clauses(q)
	seen := map[string]bool{}
	for _, c := range cs {
		if c.Match != nil {
			for _, p := range c.Match.Pattern {
				if p == nil || !(p.ShortestPathPattern || p.AllShortestPathsPattern) {
					continue
				}
				for _, el := range p.PatternElements {
					if np, ok := el.AsNodePattern(); ok && np.Variable != nil && seen[np.Variable.Symbol] {
						return true
					}
				}
			}
		}
		for v := range c03VariablesIn(c.Node) {
			seen[v] = true
		}
	}
	return false
}

// C03ShortestPathSameEndpoints: shortestPath((n)-[*]->(n)) joins the node table twice under the same alias
// (`join node n0 on … join node n0 on …`). DAWGS rejects equal endpoints at run time
// (shortest_path_self_endpoint_error), but the statement it would run never gets that far.
func C03ShortestPathSameEndpoints(q *cypher.RegularQuery) bool {
	for _, c := range C03Clauses(q) {
		if c.Match == nil {
			continue
		}
		for _, p := range c.Match.Pattern {
			if p == nil || !(p.ShortestPathPattern || p.AllShortestPathsPattern) {
				continue
			}
			var names []string
			for _, el := range p.PatternElements {
				if np, ok := el.AsNodePattern(); ok && np.Variable != nil {
					names = append(names, np.Variable.Symbol)
				}
			}
			if len(names) >= 2 && names[0] == names[len(names)-1] {
				return true
			}
		}
	}
	return false
}

// c03UpdateTargets lists the variables the updating clauses of one query part mutate, and reports
// whether some assigned value (SET right-hand side, CREATE property value) reads a variable.
func c03UpdateTargets(cs []C03Clause, part int) (targets map[string]bool, valueReadsVariable bool, n int) {
	targets = map[string]bool{}
	for _, c := range cs {
		if c.Part != part || c.Kind != "update" {
			continue
		}
		n++
		C03WalkModel(c.Node, func(node any, _ []any) bool {
			switch t := node.(type) {
			case *cypher.SetItem:
				for v := range c03VariablesIn(t.Left) {
					targets[v] = true
				}
				if len(c03VariablesIn(t.Right)) > 0 {
					valueReadsVariable = true
				}
			case *cypher.RemoveItem:
				for v := range c03VariablesIn(t) {
					targets[v] = true
				}
			case *cypher.Delete:
				for v := range c03VariablesIn(t) {
					targets[v] = true
				}
			case *cypher.Create:
				for v := range c03VariablesIn(t) {
					targets[v] = true
				}
				C03WalkModel(t, func(inner any, _ []any) bool {
					if pl, ok := inner.(*cypher.PropertyLookup); ok && pl != nil {
						valueReadsVariable = true
					}
					return true
				})
			}
			return true
		})
	}
	return targets, valueReadsVariable, n
}

func c03Parts(cs []C03Clause) []int {
	seen := map[int]bool{}
	var out []int
	for _, c := range cs {
		if !seen[c.Part] {
			seen[c.Part] = true
			out = append(out, c.Part)
		}
	}
	return out
}

// C03UpdateValueReadsStaleFrame: the value expressions of SET / CREATE are rewritten against the frames that
// exist when the clause is visited, but the updates are rendered later as a chain of CTEs, one per mutated
// binding, each reading FROM the one before it. The second update of the chain still names the frame its
// value was rewritten against (`… jsonb_build_object('x', (s1.n1).properties -> 'name') from s2 …`). Shape: a
// query part whose updating clauses mutate two or more bindings while some assigned value reads a variable.
func C03UpdateValueReadsStaleFrame(q *cypher.RegularQuery) bool {
	cs := C03Clauses(q)
	for _, part := range c03Parts(cs) {
		targets, reads, _ := c03UpdateTargets(cs, part)
		if len(targets) >= 2 && reads {
			return true
		}
	}
	// second form of the same root cause: a value that is a plain name rather than a property of an entity –
	// a WITH alias or an UNWIND variable – is only rewritten when the update is rendered, by which time the
	// name counts as materialized by the update's own frame (`set n.x = a` gives `… 'x', s2.i0 … from s0`)
	patternVars := map[string]bool{}
	for _, c := range cs {
		if c.Match != nil {
			for v := range c03PatternVariables(c.Match.Pattern) {
				patternVars[v] = true
			}
		}
	}
	for _, c := range cs {
		if c.Kind != "update" {
			continue
		}
		stale := false
		C03WalkModel(c.Node, func(node any, _ []any) bool {
			if t, ok := node.(*cypher.SetItem); ok && t != nil {
				for v := range c03VariablesIn(t.Right) {
					if !patternVars[v] {
						stale = true
					}
				}
			}
			return true
		})
		if stale {
			return true
		}
	}
	return false
}

func c03PartHasUpdate(cs []C03Clause, part int) bool {
	for _, c := range cs {
		if c.Part == part && c.Kind == "update" {
			return true
		}
	}
	return false
}

// C03PatternPredicateWithUpdate: a pattern predicate is rendered against the frame current at its MATCH and
// placed in the final select; an update frame in between re-projects the bindings, so the predicate's
// references to the MATCH frame dangle. Shape: a query part with an updating clause and a pattern predicate.
func C03PatternPredicateWithUpdate(q *cypher.RegularQuery) bool {
	cs := C03Clauses(q)
	for _, c := range cs {
		if c.Match != nil && c03PartHasUpdate(cs, c.Part) && c03Contains(c03WhereOf(c.Match), c03IsPatternPredicate) {
			return true
		}
	}
	return false
}

// C03UnwindWithUpdate: the unwound value is a FROM item of the final select only; update frames project it
// as if the previous frame had it as a column (`returning i0 as i0`, `s0.i0`). Shape: a query part with an
// UNWIND and an updating clause.
func C03UnwindWithUpdate(q *cypher.RegularQuery) bool {
	cs := C03Clauses(q)
	for _, c := range cs {
		if c.Kind == "unwind" && c03PartHasUpdate(cs, c.Part) {
			return true
		}
	}
	return false
}

// C03PathWithUpdate: update frames re-project node and relationship bindings but not path bindings, so a
// path read after (or inside) an update names a column `pcN` that no frame exports. Shape: a query part with
// an updating clause in which a path variable occurs outside the pattern that declares it.
func C03PathWithUpdate(q *cypher.RegularQuery) bool {
	cs := C03Clauses(q)
	paths := c03PathVariables(cs)
	for _, c := range cs {
		if c.Kind == "update" {
			for v := range c03VariablesIn(c.Node) {
				if paths[v] {
					return true
				}
			}
			// CREATE p = … declares a path of its own
			if c03Contains(c.Node, func(n any) bool { pp, ok := n.(*cypher.PatternPart); return ok && pp != nil && pp.Variable != nil }) {
				return true
			}
		}
	}
	for _, c := range cs {
		if !c03PartHasUpdate(cs, c.Part) {
			continue
		}
		var where any
		switch {
		case c.Match != nil:
			where = c03WhereOf(c.Match)
		case c.Return != nil:
			where = c.Return
		case c.With != nil:
			where = c.With
		}
		for v := range c03VariablesIn(where) {
			if paths[v] {
				return true
			}
		}
	}
	return false
}
