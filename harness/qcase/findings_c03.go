package qcase

// Exclusion predicates contributed by the C03 check (findings.go holds those of C01/C02; kept in a file
// of their own so that neither side overwrites the other): one named, syntactic predicate over the
// parsed Cypher model per OPEN finding of /verif/harness/props/TRANSLATION_FINDINGS.md. A check wires a
// predicate in behind evid.R.KnownOpen("<id>"): a matching case is not evaluated, it is counted as excluded.
//
// The helpers below (clause list, reflection walk with ancestors) are deliberately independent of
// DAWGS's own walkers.

import (
	"reflect"
	"strings"

	"github.com/specterops/dawgs/cypher/models/cypher"
)

// ---- model helpers -------------------------------------------------------------------------------

// C03Clause is one clause of a query in source order.
type C03Clause struct {
	Part    int    // index of the query part (parts are separated by WITH)
	Kind    string // match | unwind | update | with | return
	Match   *cypher.Match
	Unwind  *cypher.Unwind
	Update  cypher.Expression // *cypher.UpdatingClause or its clause
	With    *cypher.With
	Return  *cypher.Return
	Node    any // the model node itself
	LastOfQ bool
}

// Clauses flattens a query into its clauses in source order.
func C03Clauses(q *cypher.RegularQuery) []C03Clause {
	var out []C03Clause
	if q == nil || q.SingleQuery == nil {
		return nil
	}
	addReading := func(part int, rcs []*cypher.ReadingClause) {
		for _, rc := range rcs {
			switch {
			case rc == nil:
			case rc.Match != nil:
				out = append(out, C03Clause{Part: part, Kind: "match", Match: rc.Match, Node: rc.Match})
			case rc.Unwind != nil:
				out = append(out, C03Clause{Part: part, Kind: "unwind", Unwind: rc.Unwind, Node: rc.Unwind})
			}
		}
	}
	single := func(part int, sp *cypher.SinglePartQuery) {
		if sp == nil {
			return
		}
		addReading(part, sp.ReadingClauses)
		for _, u := range sp.UpdatingClauses {
			out = append(out, C03Clause{Part: part, Kind: "update", Update: u, Node: u})
		}
		if sp.Return != nil {
			out = append(out, C03Clause{Part: part, Kind: "return", Return: sp.Return, Node: sp.Return})
		}
	}
	switch {
	case q.SingleQuery.MultiPartQuery != nil:
		mp := q.SingleQuery.MultiPartQuery
		for i, p := range mp.Parts {
			if p == nil {
				continue
			}
			addReading(i, p.ReadingClauses)
			for _, u := range p.UpdatingClauses {
				out = append(out, C03Clause{Part: i, Kind: "update", Update: u, Node: u})
			}
			if p.With != nil {
				out = append(out, C03Clause{Part: i, Kind: "with", With: p.With, Node: p.With})
			}
		}
		single(len(mp.Parts), mp.SinglePartQuery)
	case q.SingleQuery.SinglePartQuery != nil:
		single(0, q.SingleQuery.SinglePartQuery)
	}
	return out
}

// C03WalkModel visits every model node (pointers to structs of the cypher model package) reachable from
// root, handing the visitor the node and its ancestors (outermost first). Returning false prunes.
func C03WalkModel(root any, visit func(node any, ancestors []any) bool) {
	seen := map[uintptr]bool{}
	var walk func(v reflect.Value, anc []any)
	walk = func(v reflect.Value, anc []any) {
		switch v.Kind() {
		case reflect.Ptr:
			if v.IsNil() {
				return
			}
			if v.Elem().Kind() == reflect.Struct && strings.HasSuffix(v.Elem().Type().PkgPath(), "cypher/models/cypher") {
				if seen[v.Pointer()] {
					return
				}
				seen[v.Pointer()] = true
				node := v.Interface()
				if !visit(node, anc) {
					return
				}
				walk(v.Elem(), append(append([]any(nil), anc...), node))
				return
			}
			if v.Elem().Kind() == reflect.Slice && strings.HasSuffix(v.Elem().Type().PkgPath(), "cypher/models/cypher") {
				// named slice types of the model, e.g. *cypher.ListLiteral
				node := v.Interface()
				if !visit(node, anc) {
					return
				}
				walk(v.Elem(), append(append([]any(nil), anc...), node))
				return
			}
			walk(v.Elem(), anc)
		case reflect.Interface:
			if !v.IsNil() {
				walk(v.Elem(), anc)
			}
		case reflect.Struct:
			for i := 0; i < v.NumField(); i++ {
				if v.Type().Field(i).IsExported() || v.Type().Field(i).Anonymous {
					walk(v.Field(i), anc)
				}
			}
		case reflect.Slice, reflect.Array:
			for i := 0; i < v.Len(); i++ {
				walk(v.Index(i), anc)
			}
		case reflect.Map:
			it := v.MapRange()
			for it.Next() {
				walk(it.Value(), anc)
			}
		}
	}
	walk(reflect.ValueOf(root), nil)
}

// Contains reports whether some node below root satisfies pred.
func c03Contains(root any, pred func(node any) bool) bool {
	found := false
	C03WalkModel(root, func(n any, _ []any) bool {
		if found {
			return false
		}
		if pred(n) {
			found = true
			return false
		}
		return true
	})
	return found
}

// c03VariablesIn lists the distinct variable symbols that occur below root (declarations and uses).
func c03VariablesIn(root any) map[string]bool {
	out := map[string]bool{}
	C03WalkModel(root, func(n any, _ []any) bool {
		if v, ok := n.(*cypher.Variable); ok && v != nil && v.Symbol != "" {
			out[v.Symbol] = true
		}
		return true
	})
	return out
}

// c03PatternVariables lists the variables a pattern declares or re-uses: node, relationship and path variables.
func c03PatternVariables(parts []*cypher.PatternPart) map[string]bool {
	out := map[string]bool{}
	for _, p := range parts {
		if p == nil {
			continue
		}
		if p.Variable != nil {
			out[p.Variable.Symbol] = true
		}
		for _, el := range p.PatternElements {
			if el == nil {
				continue
			}
			if np, ok := el.AsNodePattern(); ok && np.Variable != nil {
				out[np.Variable.Symbol] = true
			}
			if rp, ok := el.AsRelationshipPattern(); ok && rp.Variable != nil {
				out[rp.Variable.Symbol] = true
			}
		}
	}
	return out
}

func c03IsFunction(n any, names ...string) bool {
	f, ok := n.(*cypher.FunctionInvocation)
	if !ok || f == nil {
		return false
	}
	for _, name := range names {
		if strings.EqualFold(f.Name, name) {
			return true
		}
	}
	return false
}

func c03IsPatternPredicate(n any) bool { _, ok := n.(*cypher.PatternPredicate); return ok }
func c03IsQuantifier(n any) bool       { _, ok := n.(*cypher.Quantifier); return ok }

// c03PathVariables lists the path variables declared by the MATCH clauses of a query.
func c03PathVariables(cs []C03Clause) map[string]bool {
	out := map[string]bool{}
	for _, c := range cs {
		if c.Match != nil {
			for _, p := range c.Match.Pattern {
				if p != nil && p.Variable != nil {
					out[p.Variable.Symbol] = true
				}
			}
		}
	}
	return out
}

func c03WhereOf(m *cypher.Match) any {
	if m == nil || m.Where == nil {
		return nil
	}
	return m.Where
}

// c03PartEndsWithWith reports whether the query part of clause i ends in a WITH.
func c03PartEndsWithWith(cs []C03Clause, i int) bool {
	for j := i + 1; j < len(cs); j++ {
		if cs[j].Part != cs[i].Part {
			return false
		}
		if cs[j].Kind == "with" {
			return true
		}
	}
	return false
}

// ---- open findings of C03 ------------------------------------------------------------------------

// C03Finding pairs the id of an open finding with the predicate that recognises its shape.
type C03Finding struct {
	ID   string
	Pred func(q *cypher.RegularQuery) bool
}

// C03OpenFindings lists the predicates in the order they are tried.
var C03OpenFindings = []C03Finding{
	{"C03-optional-match-without-join-key", C03OptionalMatchWithoutJoinKey},
	{"C03-optional-match-with-pattern-predicate", C03OptionalMatchWithPatternPredicate},
	{"C03-unwind-before-optional-match", C03UnwindBeforeOptionalMatch},
	{"C03-subselect-predicate-before-with", C03SubselectPredicateBeforeWith},
	{"C03-distinct-order-by-unprojected", C03DistinctOrderByUnprojected},
	{"C03-shortest-path-bound-endpoint-filter", C03ShortestPathBoundEndpoint},
	{"C03-shortest-path-same-endpoints", C03ShortestPathSameEndpoints},
	{"C03-update-value-reads-stale-frame", C03UpdateValueReadsStaleFrame},
	{"C03-pattern-predicate-with-update", C03PatternPredicateWithUpdate},
	{"C03-unwind-with-update", C03UnwindWithUpdate},
	{"C03-path-with-update", C03PathWithUpdate},
	{"C03-pattern-predicate-before-later-clause", C03PatternPredicateBeforeLaterClause},
	{"C03-expansion-constraint-spans-bindings", C03ExpansionConstraintSpansBindings},
	{"C03-unwind-variable-in-later-match", C03UnwindVariableInLaterMatch},
	{"C03-path-projected-with-aggregate", C03PathProjectedWithAggregate},
	{"C03-unwound-entity-in-pattern", C03UnwoundEntityInPattern},
	{"C03-with-where-on-entity-alias", C03WithWhereOnEntityAlias},
	{"C03-order-by-ungrouped-after-aggregate", C03OrderByUngroupedAfterAggregate},
	{"C03-variable-length-relationship-as-entity", C03VariableLengthRelationshipAsEntity},
	{"C03-pattern-predicate-introduces-variable", C03PatternPredicateIntroducesVariable},
	{"C03-empty-list-literal", C03EmptyListLiteral},
	{"C03-nested-aggregate", C03NestedAggregate},
	{"C03-variable-rebound-with-other-role", C03VariableReboundWithOtherRole},
	{"C03-path-used-as-entity", C03PathUsedAsEntity},
	{"C03-property-of-scalar-alias", C03PropertyOfScalarAlias},
	{"C03-alias-shadows-or-self-reference", C03AliasShadowsOrSelfReference},
	{"C03-list-concatenation-cast-to-pseudo-type", C03ListConcatenationWithCollect},
	{"C03-aggregate-in-where", C03AggregateInWhere},
	{"C03-chained-null-test", C03ChainedNullTest},
	{"C03-parenthesised-variable-lookup-before-with", C03ParenthesisedVariableLookupBeforeWith},
	{"C03-entity-function-on-other-entity-kind", C03EntityFunctionOnOtherEntityKind},
	{"C03-aggregate-combined-with-bare-variable", C03AggregateCombinedWithBareVariable},
	{"C03-with-order-by-alias", C03WithOrderByAlias},
	{"C03-windowed-with-leaves-constraints-pending", C03WindowedWithLeavesConstraintsPending},
	{"C03-return-order-by-reads-alias", C03ReturnOrderByReadsAlias},
	{"C03-exact-range-inline-map-reads-variable", C03ExactRangeInlineMapReadsVariable},
}

// C03ExcludedBy returns the id of the first open finding whose shape the query has ("" = none).
func C03ExcludedBy(q *cypher.RegularQuery, open func(id string) bool) string {
	for _, f := range C03OpenFindings {
		if open(f.ID) && f.Pred(q) {
			return f.ID
		}
	}
	return ""
}

// c03NonFirstOptional lists the indices of the OPTIONAL MATCH clauses that have a clause before them
// (a leading OPTIONAL MATCH is translated as a plain MATCH).
func c03NonFirstOptional(cs []C03Clause) []int {
	var out []int
	for i, c := range cs {
		if i > 0 && c.Match != nil && c.Match.Optional {
			out = append(out, i)
		}
	}
	return out
}

// C03OptionalMatchWithoutJoinKey: an OPTIONAL MATCH is joined back to the rows before it on the
// bindings those rows export (`s0 left outer join s1 on s0.n0 = s1.n0`). The frame before it exports
// only what later clauses read (projection pruning), so when nothing bound earlier in the query part
// is read by the OPTIONAL MATCH or anything after it, the join has no condition at all and the text is
// `left outer join s1)`. Shape: a non-leading OPTIONAL MATCH such that no variable bound by the
// preceding clauses of its query part occurs in it or later in that part. Not narrower: which bindings
// survive pruning is decided per query part from exactly this occurrence test.
func C03OptionalMatchWithoutJoinKey(q *cypher.RegularQuery) bool {
	cs := C03Clauses(q)
	for _, i := range c03NonFirstOptional(cs) {
		before := map[string]bool{}
		for j := 0; j < i; j++ {
			if cs[j].Part != cs[i].Part {
				// what an earlier part hands over is what its WITH projects
				if cs[j].With != nil && j+1 <= i && cs[j].Part == cs[i].Part-1 {
					for v := range c03WithExports(cs[j].With) {
						before[v] = true
					}
				}
				continue
			}
			for v := range c03VariablesIn(cs[j].Node) {
				before[v] = true
			}
		}
		used := false
		for j := i; j < len(cs) && cs[j].Part == cs[i].Part; j++ {
			for v := range c03VariablesIn(cs[j].Node) {
				if before[v] {
					used = true
				}
			}
		}
		if !used {
			return true
		}
	}
	return false
}

// c03WithExports lists the names a WITH hands to the next part.
func c03WithExports(w *cypher.With) map[string]bool {
	out := map[string]bool{}
	if w == nil || w.Projection == nil {
		return out
	}
	for _, it := range w.Projection.Items {
		pi, ok := it.(*cypher.ProjectionItem)
		if !ok || pi == nil {
			continue
		}
		if pi.Alias != nil {
			out[pi.Alias.Symbol] = true
		} else if v, isVar := pi.Expression.(*cypher.Variable); isVar && v != nil {
			out[v.Symbol] = true
		}
	}
	return out
}

// C03OptionalMatchWithPatternPredicate: a pattern predicate is rendered as a sub-query against the
// frame that is current when its MATCH is translated, but the OPTIONAL MATCH machinery then inserts an
// aggregation frame (`sK as (select … from sI left outer join sJ …)`) and the predicate is placed in a
// select that reads only from the aggregation frame, so its references to sI / sJ dangle. Shape: a query
// part that contains a non-leading OPTIONAL MATCH and a pattern predicate in the WHERE of one of its
// MATCH clauses. Not narrower: predicates of the MATCH before the OPTIONAL MATCH are deferred past it too.
func C03OptionalMatchWithPatternPredicate(q *cypher.RegularQuery) bool {
	cs := C03Clauses(q)
	for _, i := range c03NonFirstOptional(cs) {
		for j := range cs {
			if cs[j].Part == cs[i].Part && cs[j].Match != nil && c03Contains(c03WhereOf(cs[j].Match), c03IsPatternPredicate) {
				return true
			}
		}
	}
	return false
}

// C03UnwindBeforeOptionalMatch: an UNWIND is rendered as a FROM item of the next frame, not as a column
// of the frame before it, yet the OPTIONAL MATCH join and projections read the unwound value as a column
// of that earlier frame (`s0.i0`). Shape: a query part with an UNWIND followed by a non-leading OPTIONAL MATCH.
func C03UnwindBeforeOptionalMatch(q *cypher.RegularQuery) bool {
	cs := C03Clauses(q)
	for _, i := range c03NonFirstOptional(cs) {
		for j := 0; j < i; j++ {
			if cs[j].Part == cs[i].Part && cs[j].Kind == "unwind" {
				return true
			}
		}
	}
	return false
}

// C03SubselectPredicateBeforeWith: a WHERE conjunct is attached to the first frame that defines every
// identifier its SQL form mentions. For labels(n), quantifiers and path functions the SQL form contains a
// sub-select whose own aliases (_kind, _kind_idx, the unnest alias) and table names are counted as if the
// enclosing query had to define them, so no frame ever qualifies and the conjunct is only placed by the
// final "consume everything" step – after a WITH has pruned the bindings it reads (`n0.kind_ids` with no
// n0 in scope). Shape: a MATCH whose WHERE contains labels(), a quantifier, or a reference to a path variable,
// in a query part that ends in WITH, contains a non-leading OPTIONAL MATCH, or contains a pattern predicate
// (each of these puts a frame between the MATCH and the final select).
func C03SubselectPredicateBeforeWith(q *cypher.RegularQuery) bool {
	cs := C03Clauses(q)
	paths := c03PathVariables(cs)
	// the WHERE of a WITH is itself placed in the next query part; if that part is not the last one the same
	// happens one part later
	for i, c := range cs {
		if c.With != nil && c.With.Where != nil && i+1 < len(cs) &&
			c03Contains(c.With.Where, func(n any) bool { return c03IsFunction(n, "labels") || c03IsQuantifier(n) }) {
			return true
		}
	}
	for i, c := range cs {
		if c.Match == nil || c.Match.Where == nil {
			continue
		}
		// what cuts the bindings off: the WITH that ends the part, the aggregation frame of a non-leading
		// OPTIONAL MATCH of the part, or the frame shift that a pattern predicate of the part causes
		boundary := c03PartEndsWithWith(cs, i)
		for j := range cs {
			if cs[j].Part == c.Part && cs[j].Match != nil && c03Contains(c03WhereOf(cs[j].Match), c03IsPatternPredicate) {
				boundary = true
			}
		}
		for _, j := range c03NonFirstOptional(cs) {
			if cs[j].Part == c.Part {
				boundary = true
			}
		}
		if !boundary {
			continue
		}
		if c03Contains(c.Match.Where, func(n any) bool {
			if c03IsFunction(n, "labels") || c03IsQuantifier(n) {
				return true
			}
			if v, ok := n.(*cypher.Variable); ok && v != nil && paths[v.Symbol] {
				return true
			}
			return false
		}) {
			return true
		}
	}
	return false
}

// C03DistinctOrderByUnprojected: `RETURN DISTINCT n ORDER BY n.name` is emitted as `select distinct s0.n0
// … order by (s0.n0).properties -> 'name'`; PostgreSQL requires every ORDER BY expression of a SELECT
// DISTINCT to appear in the select list. Shape: a DISTINCT projection with a sort key that is neither one
// of its items nor one of its aliases.
func C03DistinctOrderByUnprojected(q *cypher.RegularQuery) bool {
	found := false
	C03WalkModel(q, func(n any, _ []any) bool {
		p, ok := n.(*cypher.Projection)
		if !ok || p == nil || !p.Distinct || p.Order == nil {
			return true
		}
		var items []any
		aliases := map[string]bool{}
		for _, it := range p.Items {
			if pi, isItem := it.(*cypher.ProjectionItem); isItem && pi != nil {
				items = append(items, pi.Expression)
				if pi.Alias != nil {
					aliases[pi.Alias.Symbol] = true
				}
			}
		}
		for _, si := range p.Order.Items {
			if si == nil {
				continue
			}
			if v, isVar := si.Expression.(*cypher.Variable); isVar && v != nil && aliases[v.Symbol] {
				continue
			}
			same := false
			for _, it := range items {
				if reflect.DeepEqual(it, si.Expression) {
					same = true
				}
			}
			if !same {
				found = true
			}
		}
		return true
	})
	return found
}

// C03ShortestPathBoundEndpoint: a shortest-path search runs inside plpgsql harness functions that receive
// their primer / recursive / filter statements as SQL text and EXECUTE them. When an endpoint is bound by an
// earlier clause – or the WHERE of the shortest-path MATCH reads a binding of an earlier clause – that text
// names a CTE of the calling statement (`insert into traversal_root_filter … from s0`, `… where (s0.n0)…`),
// which does not exist inside the function. Shape: a MATCH with a shortestPath / allShortestPaths pattern
// part in which a variable occurs that an earlier clause, or an earlier pattern part of the same MATCH, binds.
func C03ShortestPathBoundEndpoint(q *cypher.RegularQuery) bool {
	cs := C03Clauses(q)
	seen := map[string]bool{}
	pendingWithWhere := false
	for _, c := range cs {
		if c.Match != nil {
			local := map[string]bool{}
			hasShortest := false
			for _, p := range c.Match.Pattern {
				if p == nil {
					continue
				}
				if p.ShortestPathPattern || p.AllShortestPathsPattern {
					hasShortest = true
					for _, el := range p.PatternElements {
						if np, ok := el.AsNodePattern(); ok && np.Variable != nil && (seen[np.Variable.Symbol] || local[np.Variable.Symbol]) {
							return true
						}
					}
				}
				for v := range c03PatternVariables([]*cypher.PatternPart{p}) {
					local[v] = true
				}
			}
			if hasShortest {
				// a conjunct on bindings that exist before the shortest-path clause is attached to the first
				// frame that has them – the shortest-path frame – even when it is written on a later MATCH
				for _, other := range cs {
					if other.Part == c.Part && other.Match != nil {
						for v := range c03VariablesIn(c03WhereOf(other.Match)) {
							if seen[v] {
								return true
							}
						}
					}
				}
				// the WHERE of the WITH before this part is placed in this part, and reads the WITH's frame
				if pendingWithWhere {
					return true
				}
				// a pattern predicate of the part has no dependency of its own and is consumed by the first
				// frame built after it is seen – which may be the shortest-path frame
				for _, other := range cs {
					if other.Part == c.Part && other.Match != nil && c03Contains(c03WhereOf(other.Match), c03IsPatternPredicate) {
						return true
					}
				}
			}
		}
		for v := range c03VariablesIn(c.Node) {
			seen[v] = true
		}
		if c.With != nil {
			// only what the WITH projects survives
			seen = c03WithExports(c.With)
			pendingWithWhere = c.With.Where != nil
		}
	}
	return false
}

// C03ShortestPathSameEndpoints: shortestPath((n)-[*]->(n)) joins the node table twice under the same alias
// (`join node n0 on … join node n0 on …`). DAWGS rejects equal endpoints at run time
// (shortest_path_self_endpoint_error), but the statement it would run never gets that far.
func C03ShortestPathSameEndpoints(q *cypher.RegularQuery) bool {
	for _, c := range C03Clauses(q) {
		if c.Match == nil {
			continue
		}
		for _, p := range c.Match.Pattern {
			if p == nil || !(p.ShortestPathPattern || p.AllShortestPathsPattern) {
				continue
			}
			var names []string
			for _, el := range p.PatternElements {
				if np, ok := el.AsNodePattern(); ok && np.Variable != nil {
					names = append(names, np.Variable.Symbol)
				}
			}
			if len(names) >= 2 && names[0] == names[len(names)-1] {
				return true
			}
		}
	}
	return false
}

// c03UpdateTargets lists the variables the updating clauses of one query part mutate, and reports
// whether some assigned value (SET right-hand side, CREATE property value) reads a variable.
func c03UpdateTargets(cs []C03Clause, part int) (targets map[string]bool, valueReadsVariable bool, n int) {
	targets = map[string]bool{}
	for _, c := range cs {
		if c.Part != part || c.Kind != "update" {
			continue
		}
		n++
		C03WalkModel(c.Node, func(node any, _ []any) bool {
			switch t := node.(type) {
			case *cypher.SetItem:
				for v := range c03VariablesIn(t.Left) {
					targets[v] = true
				}
				if len(c03VariablesIn(t.Right)) > 0 {
					valueReadsVariable = true
				}
			case *cypher.RemoveItem:
				for v := range c03VariablesIn(t) {
					targets[v] = true
				}
			case *cypher.Delete:
				for v := range c03VariablesIn(t) {
					targets[v] = true
				}
			case *cypher.Create:
				// the frames of a CREATE come before those of the updates, named or not
				targets["<create>"] = true
				for v := range c03VariablesIn(t) {
					targets[v] = true
				}
				C03WalkModel(t, func(inner any, _ []any) bool {
					if pl, ok := inner.(*cypher.PropertyLookup); ok && pl != nil {
						valueReadsVariable = true
					}
					return true
				})
			}
			return true
		})
	}
	return targets, valueReadsVariable, n
}

func c03Parts(cs []C03Clause) []int {
	seen := map[int]bool{}
	var out []int
	for _, c := range cs {
		if !seen[c.Part] {
			seen[c.Part] = true
			out = append(out, c.Part)
		}
	}
	return out
}

// C03UpdateValueReadsStaleFrame: the value expressions of SET / CREATE are rewritten against the frames that
// exist when the clause is visited, but the updates are rendered later as a chain of CTEs, one per mutated
// binding, each reading FROM the one before it. The second update of the chain still names the frame its
// value was rewritten against (`… jsonb_build_object('x', (s1.n1).properties -> 'name') from s2 …`). Shape: a
// query part whose updating clauses mutate two or more bindings while some assigned value reads a variable.
func C03UpdateValueReadsStaleFrame(q *cypher.RegularQuery) bool {
	cs := C03Clauses(q)
	for _, part := range c03Parts(cs) {
		targets, reads, _ := c03UpdateTargets(cs, part)
		if len(targets) >= 2 && reads {
			return true
		}
	}
	// second form of the same root cause: a value that is a plain name rather than a property of an entity –
	// a WITH alias or an UNWIND variable – is only rewritten when the update is rendered, by which time the
	// name counts as materialized by the update's own frame (`set n.x = a` gives `… 'x', s2.i0 … from s0`)
	patternVars := map[string]bool{}
	for _, c := range cs {
		if c.Match != nil {
			for v := range c03PatternVariables(c.Match.Pattern) {
				patternVars[v] = true
			}
		}
	}
	for _, c := range cs {
		if c.Kind != "update" {
			continue
		}
		stale := false
		C03WalkModel(c.Node, func(node any, _ []any) bool {
			if t, ok := node.(*cypher.SetItem); ok && t != nil {
				for v := range c03VariablesIn(t.Right) {
					if !patternVars[v] {
						stale = true
					}
				}
				// … or an entity used as such rather than through one of its properties: id(n), type(r)
				C03WalkModel(t.Right, func(inner any, anc []any) bool {
					if _, isVar := inner.(*cypher.Variable); isVar {
						if len(anc) == 0 {
							stale = true
						} else if _, underLookup := anc[len(anc)-1].(*cypher.PropertyLookup); !underLookup {
							stale = true
						}
					}
					return true
				})
			}
			return true
		})
		if stale {
			return true
		}
	}
	return false
}

func c03PartHasUpdate(cs []C03Clause, part int) bool {
	for _, c := range cs {
		if c.Part == part && c.Kind == "update" {
			return true
		}
	}
	return false
}

// C03PatternPredicateWithUpdate: a pattern predicate is rendered against the frame current at its MATCH and
// placed in the final select; an update frame in between re-projects the bindings, so the predicate's
// references to the MATCH frame dangle. Shape: a query part with an updating clause and a pattern predicate.
func C03PatternPredicateWithUpdate(q *cypher.RegularQuery) bool {
	cs := C03Clauses(q)
	for _, c := range cs {
		if c.Match != nil && c03PartHasUpdate(cs, c.Part) && c03Contains(c03WhereOf(c.Match), c03IsPatternPredicate) {
			return true
		}
	}
	return false
}

// C03UnwindWithUpdate: the unwound value is a FROM item of the final select only; update frames project it
// as if the previous frame had it as a column (`returning i0 as i0`, `s0.i0`). Shape: a query part with an
// UNWIND and an updating clause.
func C03UnwindWithUpdate(q *cypher.RegularQuery) bool {
	cs := C03Clauses(q)
	for _, c := range cs {
		if c.Kind == "unwind" && c03PartHasUpdate(cs, c.Part) {
			return true
		}
	}
	return false
}

// C03PathWithUpdate: update frames re-project node and relationship bindings but not path bindings, so a
// path read after (or inside) an update names a column `pcN` that no frame exports. Shape: a query part with
// an updating clause in which a path variable occurs outside the pattern that declares it.
func C03PathWithUpdate(q *cypher.RegularQuery) bool {
	cs := C03Clauses(q)
	paths := c03PathVariables(cs)
	for _, c := range cs {
		if c.Kind == "update" {
			for v := range c03VariablesIn(c.Node) {
				if paths[v] {
					return true
				}
			}
			// CREATE p = … declares a path of its own
			if c03Contains(c.Node, func(n any) bool { pp, ok := n.(*cypher.PatternPart); return ok && pp != nil && pp.Variable != nil }) {
				return true
			}
		}
	}
	// a path declared by a MATCH of the part is re-projected through the update frames as well
	for _, c := range cs {
		if c.Match != nil && c03PartHasUpdate(cs, c.Part) {
			for _, p := range c.Match.Pattern {
				if p != nil && p.Variable != nil {
					return true
				}
			}
		}
	}
	for _, c := range cs {
		if !c03PartHasUpdate(cs, c.Part) {
			continue
		}
		var where any
		switch {
		case c.Match != nil:
			where = c03WhereOf(c.Match)
		case c.Return != nil:
			where = c.Return
		case c.With != nil:
			where = c.With
		}
		for v := range c03VariablesIn(where) {
			if paths[v] {
				return true
			}
		}
	}
	return false
}

// C03PatternPredicateBeforeLaterClause: a pattern predicate is rendered as a sub-query against the frame of
// its own MATCH but is only placed where all of its dependencies are known – often one or two frames later,
// in a select that no longer has that frame in its FROM list. (The most frequent form, the predicate being
// rendered a second time by the next MATCH, is repaired by C03-pattern-predicate-rendered-again-by-later-match;
// this is what remains.) Shape: a MATCH with a pattern predicate in its WHERE that is followed by another
// reading clause in the same query part. Not narrower: where the predicate ends up depends on which other
// conjuncts and joins consume the bindings it depends on.
func C03PatternPredicateBeforeLaterClause(q *cypher.RegularQuery) bool {
	cs := C03Clauses(q)
	for i, c := range cs {
		if c.Match == nil || !c03Contains(c03WhereOf(c.Match), c03IsPatternPredicate) {
			continue
		}
		for j := i + 1; j < len(cs) && cs[j].Part == c.Part; j++ {
			if cs[j].Kind == "match" || cs[j].Kind == "unwind" {
				return true
			}
		}
	}
	return false
}

func c03HasVariableLength(parts []*cypher.PatternPart) bool {
	for _, p := range parts {
		if p == nil {
			continue
		}
		for _, el := range p.PatternElements {
			if rp, ok := el.AsRelationshipPattern(); ok && rp.Range != nil {
				return true
			}
		}
	}
	return false
}

// c03Conjuncts splits a WHERE into its top-level AND operands.
func c03Conjuncts(where *cypher.Where) []cypher.Expression {
	if where == nil {
		return nil
	}
	var out []cypher.Expression
	var split func(e cypher.Expression)
	split = func(e cypher.Expression) {
		if c, ok := e.(*cypher.Conjunction); ok && c != nil {
			for _, sub := range c.GetAll() {
				split(sub)
			}
			return
		}
		out = append(out, e)
	}
	for _, e := range where.GetAll() {
		split(e)
	}
	return out
}

// C03ExpansionConstraintSpansBindings: a WHERE conjunct that reads two or more bindings is attached to the
// frame of the last pattern step that binds one of them. When one of the steps involved is a variable-length
// expansion the conjunct can land inside the expansion's projection (or one of its lowered forms: exact-range
// steps, direction selection, suffix pushdown) while still naming a binding of a fixed step that is only joined
// later – `n0.properties …` / `e1.…` with no such FROM item. Shape: a MATCH WHERE conjunct in which two or more
// different variables occur, one of them an endpoint of a variable-length relationship of the same query part
// (shortest-path patterns have their own findings). Not narrower: which
// frame receives the conjunct depends on constraint balancing and on the lowerings chosen by the optimiser.
func C03ExpansionConstraintSpansBindings(q *cypher.RegularQuery) bool {
	cs := C03Clauses(q)
	for _, part := range c03Parts(cs) {
		// the endpoints of the variable-length steps of the part
		endpoints := map[string]bool{}
		for _, c := range cs {
			if c.Part != part || c.Match == nil {
				continue
			}
			for _, p := range c.Match.Pattern {
				if p == nil || p.ShortestPathPattern || p.AllShortestPathsPattern {
					continue
				}
				for i, el := range p.PatternElements {
					rp, ok := el.AsRelationshipPattern()
					if !ok || rp.Range == nil {
						continue
					}
					for _, j := range []int{i - 1, i + 1} {
						if j >= 0 && j < len(p.PatternElements) {
							if np, isNode := p.PatternElements[j].AsNodePattern(); isNode && np.Variable != nil {
								endpoints[np.Variable.Symbol] = true
							}
						}
					}
				}
			}
		}
		if len(endpoints) == 0 {
			continue
		}
		for _, c := range cs {
			if c.Part != part || c.Match == nil {
				continue
			}
			for _, conj := range c03Conjuncts(c.Match.Where) {
				vars := c03VariablesIn(conj)
				if len(vars) < 3 {
					continue
				}
				for v := range vars {
					if endpoints[v] {
						return true
					}
				}
			}
		}
	}
	return false
}

// C03UnwindVariableInLaterMatch: the unwound value is a FROM item (`unnest(…) as i0`) of the final select
// only, yet a MATCH after the UNWIND whose pattern continues from a node bound BEFORE it with a fixed-length step
// places a conjunct that reads the unwound value (and at most that node) in the join condition of the step's edge,
// where no such FROM item exists (`join edge e0 on (i0 <> 'abc') and (s0.n0).id = e0.start_id`: column "i0" does
// not exist). A conjunct that also reads a node the pattern introduces is placed later and is fine; so are
// patterns that start at a new node and expansions (their seed adds the unnest items). Shape: an UNWIND followed,
// in the same query part, by a MATCH with a pattern part whose first node restates a variable declared before that
// MATCH and whose first relationship has a fixed length, and whose WHERE has a conjunct that mentions the unwind
// variable and no variable that the MATCH itself introduces. (The first version took every MATCH after an UNWIND
// whose WHERE mentions the variable; it hid shapes that translate correctly.)
func C03UnwindVariableInLaterMatch(q *cypher.RegularQuery) bool {
	cs := C03Clauses(q)
	for i, c := range cs {
		if c.Unwind == nil || c.Unwind.Variable == nil {
			continue
		}
		unwound := c.Unwind.Variable.Symbol
		for j := i + 1; j < len(cs) && cs[j].Part == c.Part; j++ {
			m := cs[j].Match
			if m == nil || m.Where == nil || !c03VariablesIn(m.Where)[unwound] {
				continue
			}
			declaredBefore := map[string]bool{}
			for _, earlier := range cs[:j] {
				for v := range c03Declared(earlier) {
					declaredBefore[v] = true
				}
			}
			continuesFromBound := false
			for _, part := range m.Pattern {
				if part == nil || len(part.PatternElements) < 3 {
					continue
				}
				first, isNode := part.PatternElements[0].AsNodePattern()
				rel, isRel := part.PatternElements[1].AsRelationshipPattern()
				// (an exact range is lowered to fixed steps)
				fixed := rel != nil && (rel.Range == nil || rel.Range.StartIndex != nil && rel.Range.EndIndex != nil && *rel.Range.StartIndex == *rel.Range.EndIndex)
				if isNode && isRel && first != nil && first.Variable != nil && declaredBefore[first.Variable.Symbol] && fixed {
					continuesFromBound = true
				}
			}
			if !continuesFromBound {
				continue
			}
			introduced := map[string]bool{}
			for v := range c03PatternVariables(m.Pattern) {
				if !declaredBefore[v] {
					introduced[v] = true
				}
			}
			for _, conjunct := range c03Conjuncts(m.Where) {
				vars := c03VariablesIn(conjunct)
				if !vars[unwound] {
					continue
				}
				readsIntroduced := false
				for v := range vars {
					if introduced[v] {
						readsIntroduced = true
					}
				}
				if !readsIntroduced {
					return true
				}
			}
		}
	}
	return false
}

// C03PathProjectedWithAggregate: a WITH that projects a path next to an aggregate groups by the name of the
// path binding (`group by pc0`) instead of by the expression it just rendered for it (`… as pc1`), and the
// binding is not a column of the frame it reads. Shape: a WITH or RETURN projection with an aggregate function
// and an item that is a path variable.
func C03PathProjectedWithAggregate(q *cypher.RegularQuery) bool {
	cs := C03Clauses(q)
	paths := c03PathVariables(cs)
	for _, c := range cs {
		var proj *cypher.Projection
		switch {
		case c.With != nil:
			proj = c.With.Projection
		case c.Return != nil:
			proj = c.Return.Projection
		}
		if proj == nil {
			continue
		}
		hasAgg, hasPath := false, false
		for _, it := range proj.Items {
			pi, ok := it.(*cypher.ProjectionItem)
			if !ok || pi == nil {
				continue
			}
			if v, isVar := pi.Expression.(*cypher.Variable); isVar && v != nil && paths[v.Symbol] {
				hasPath = true
			}
			if c03Contains(pi.Expression, func(n any) bool {
				return c03IsFunction(n, "count", "sum", "avg", "min", "max", "collect")
			}) {
				hasAgg = true
			}
		}
		if hasAgg && hasPath {
			return true
		}
		// an alias of a path is a path for the parts that follow
		if c.With != nil {
			for _, it := range proj.Items {
				if pi, ok := it.(*cypher.ProjectionItem); ok && pi != nil && pi.Alias != nil {
					if v, isVar := pi.Expression.(*cypher.Variable); isVar && v != nil && paths[v.Symbol] {
						paths[pi.Alias.Symbol] = true
					}
				}
			}
		}
	}
	return false
}

// C03UnwoundEntityInPattern: `with collect(n) as ns unwind ns as m match (m)-->(x)` – the unwound value is a
// FROM item of the final select only (see C03UnwindVariableInLaterMatch); a pattern that uses it as a bound
// node joins on `i0.id` inside its own frame, where there is no such FROM item. Shape: an UNWIND whose
// variable occurs as a node or relationship variable in a pattern of a later MATCH of the same query part.
func C03UnwoundEntityInPattern(q *cypher.RegularQuery) bool {
	cs := C03Clauses(q)
	for i, c := range cs {
		if c.Unwind == nil || c.Unwind.Variable == nil {
			continue
		}
		for j := i + 1; j < len(cs) && cs[j].Part == c.Part; j++ {
			if cs[j].Match != nil && c03PatternVariables(cs[j].Match.Pattern)[c.Unwind.Variable.Symbol] {
				return true
			}
		}
	}
	return false
}

// C03WithWhereOnEntityAlias: `with n, n as a where a.value > 0` – the WHERE of a WITH is placed in the next
// frame; the alias of an entity is a second binding of the same value, and the conjunct that reads it is
// rewritten against the entity's original name without a frame (`n0.properties`). Shape: a WITH that has a
// WHERE and projects a variable under an alias, the WHERE mentioning that alias. (Most such queries are
// rejected by the translator – "unable to resolve identifier" –; these are the ones it accepts.)
func C03WithWhereOnEntityAlias(q *cypher.RegularQuery) bool {
	for _, c := range C03Clauses(q) {
		if c.With == nil || c.With.Where == nil || c.With.Projection == nil {
			continue
		}
		used := c03VariablesIn(c.With.Where)
		for _, it := range c.With.Projection.Items {
			pi, ok := it.(*cypher.ProjectionItem)
			if !ok || pi == nil || pi.Alias == nil {
				continue
			}
			if _, isVar := pi.Expression.(*cypher.Variable); isVar && used[pi.Alias.Symbol] {
				return true
			}
		}
	}
	return false
}

var c03Aggregates = []string{"count", "sum", "avg", "min", "max", "collect"}

func c03IsAggregate(n any) bool { return c03IsFunction(n, c03Aggregates...) }

// C03OrderByUngroupedAfterAggregate: `RETURN r, count(e) ORDER BY s.score` – after an aggregating projection
// only its grouping keys exist (openCypher rejects the query); DAWGS accepts it and emits the sort key as is,
// which PostgreSQL rejects ("must appear in the GROUP BY clause"). Shape: a projection with an aggregate whose
// ORDER BY has a key that is neither an item nor an alias of the projection, contains no aggregate itself and
// reads a variable.
func C03OrderByUngroupedAfterAggregate(q *cypher.RegularQuery) bool {
	found := false
	C03WalkModel(q, func(n any, _ []any) bool {
		p, ok := n.(*cypher.Projection)
		if !ok || p == nil || p.Order == nil {
			return true
		}
		var items []any
		aliases := map[string]bool{}
		hasAgg := false
		for _, it := range p.Items {
			if pi, isItem := it.(*cypher.ProjectionItem); isItem && pi != nil {
				items = append(items, pi.Expression)
				if pi.Alias != nil {
					aliases[pi.Alias.Symbol] = true
				}
				if c03Contains(pi.Expression, c03IsAggregate) {
					hasAgg = true
				}
			}
		}
		if !hasAgg {
			return true
		}
		for _, si := range p.Order.Items {
			if si == nil {
				continue
			}
			if v, isVar := si.Expression.(*cypher.Variable); isVar && v != nil && aliases[v.Symbol] {
				continue
			}
			same := false
			for _, it := range items {
				if reflect.DeepEqual(it, si.Expression) {
					same = true
				}
			}
			if same || c03Contains(si.Expression, c03IsAggregate) {
				continue
			}
			if len(c03VariablesIn(si.Expression)) > 0 {
				found = true
			}
		}
		return true
	})
	return found
}

// C03VariableLengthRelationshipAsEntity: `-[r*]->` binds r to a list of relationships. DAWGS rejects some uses of
// such a binding as an entity ("variable-length relationship binding … is a list") but accepts r.prop, id(r),
// type(r), r:Kind in other positions and emits `(s0.e0).properties` on an edgecomposite[]. Shape: a variable
// bound by a variable-length relationship pattern that occurs as the atom of a property lookup, as the argument
// of id / type / startNode / endNode, or as the reference of a kind matcher.
func C03VariableLengthRelationshipAsEntity(q *cypher.RegularQuery) bool {
	lists := map[string]bool{}
	C03WalkModel(q, func(n any, _ []any) bool {
		if rp, ok := n.(*cypher.RelationshipPattern); ok && rp != nil && rp.Range != nil && rp.Variable != nil {
			lists[rp.Variable.Symbol] = true
		}
		return true
	})
	if len(lists) == 0 {
		return false
	}
	found := false
	isList := func(e any) bool {
		v, ok := e.(*cypher.Variable)
		return ok && v != nil && lists[v.Symbol]
	}
	C03WalkModel(q, func(n any, _ []any) bool {
		switch t := n.(type) {
		case *cypher.PropertyLookup:
			if isList(t.Atom) {
				found = true
			}
		case *cypher.KindMatcher:
			if isList(t.Reference) {
				found = true
			}
		case *cypher.FunctionInvocation:
			if c03IsFunction(t, "id", "type", "startnode", "endnode") {
				for _, a := range t.Arguments {
					if isList(a) {
						found = true
					}
				}
			}
		}
		return true
	})
	return found
}

// c03DeclaredBefore collects, clause by clause, the variables declared by patterns, UNWIND and WITH.
func c03Declared(c C03Clause) map[string]bool {
	out := map[string]bool{}
	switch {
	case c.Match != nil:
		for v := range c03PatternVariables(c.Match.Pattern) {
			out[v] = true
		}
	case c.Unwind != nil && c.Unwind.Variable != nil:
		out[c.Unwind.Variable.Symbol] = true
	case c.With != nil:
		for v := range c03WithExports(c.With) {
			out[v] = true
		}
	case c.Kind == "update":
		C03WalkModel(c.Node, func(n any, _ []any) bool {
			if cr, ok := n.(*cypher.Create); ok && cr != nil {
				for v := range c03PatternVariables(cr.Pattern) {
					out[v] = true
				}
			}
			return true
		})
	}
	return out
}

// C03PatternPredicateIntroducesVariable: a pattern predicate may only use variables that are already bound
// (openCypher rejects `WHERE ()--(x)` with a new x). DAWGS accepts it, binds x inside the predicate's sub-query
// and lets later clauses read it (`RETURN x` → `n1` with no FROM item). Shape: a pattern predicate that names a
// node or relationship variable which no pattern, UNWIND or WITH of the same or an earlier clause declares.
func C03PatternPredicateIntroducesVariable(q *cypher.RegularQuery) bool {
	cs := C03Clauses(q)
	declared := map[string]bool{}
	for _, c := range cs {
		for v := range c03Declared(c) {
			declared[v] = true
		}
		found := false
		C03WalkModel(c.Node, func(n any, _ []any) bool {
			pp, ok := n.(*cypher.PatternPredicate)
			if !ok || pp == nil {
				return true
			}
			for _, el := range pp.PatternElements {
				if np, isNode := el.AsNodePattern(); isNode && np.Variable != nil && !declared[np.Variable.Symbol] {
					found = true
				}
				if rp, isRel := el.AsRelationshipPattern(); isRel && rp.Variable != nil && !declared[rp.Variable.Symbol] {
					found = true
				}
			}
			return true
		})
		if found {
			return true
		}
		if c.With != nil {
			declared = c03WithExports(c.With)
		}
	}
	return false
}

// C03EmptyListLiteral: `[]` is emitted as `array []` without a type; PostgreSQL cannot determine the type of an
// empty array constructor unless it is cast. Shape: an empty list literal.
func C03EmptyListLiteral(q *cypher.RegularQuery) bool {
	return c03Contains(q, func(n any) bool {
		l, ok := n.(*cypher.ListLiteral)
		return ok && l != nil && len(*l) == 0
	})
}

// C03NestedAggregate: `count(… count(n) …)` – openCypher rejects nested aggregation; DAWGS emits it and
// PostgreSQL rejects it ("aggregate function calls cannot be nested"). Shape: an aggregate call below an aggregate call.
func C03NestedAggregate(q *cypher.RegularQuery) bool {
	found := false
	C03WalkModel(q, func(n any, anc []any) bool {
		if c03IsAggregate(n) {
			for _, a := range anc {
				if c03IsAggregate(a) {
					found = true
				}
			}
		}
		return true
	})
	return found
}

// C03VariableReboundWithOtherRole: one name used for two kinds of thing – a path and a node (`match p = (p)-->()`),
// a relationship in two MATCH clauses (`match ()-[r]->() match ()-[r]->()`), a quantifier variable that is also its
// own source (`any(x in labels(x) …)`). openCypher rejects these; DAWGS accepts them and the second role reads a
// binding of the first kind. Shape: a name that occurs in two different roles among {path, node, relationship,
// quantifier / UNWIND variable}, or a relationship variable that two MATCH clauses declare.
func C03VariableReboundWithOtherRole(q *cypher.RegularQuery) bool {
	roles := map[string]map[string]bool{}
	add := func(name, role string) {
		if name == "" {
			return
		}
		if roles[name] == nil {
			roles[name] = map[string]bool{}
		}
		roles[name][role] = true
	}
	relDecls := map[string]int{}
	for _, c := range C03Clauses(q) {
		if c.Match != nil {
			seenHere := map[string]bool{}
			for _, p := range c.Match.Pattern {
				if p == nil {
					continue
				}
				for _, el := range p.PatternElements {
					if rp, ok := el.AsRelationshipPattern(); ok && rp.Variable != nil && !seenHere[rp.Variable.Symbol] {
						seenHere[rp.Variable.Symbol] = true
						relDecls[rp.Variable.Symbol]++
					}
				}
			}
		}
	}
	for _, n := range relDecls {
		if n > 1 {
			return true
		}
	}
	C03WalkModel(q, func(n any, _ []any) bool {
		switch t := n.(type) {
		case *cypher.PatternPart:
			if t.Variable != nil {
				add(t.Variable.Symbol, "path")
			}
		case *cypher.NodePattern:
			if t.Variable != nil {
				add(t.Variable.Symbol, "node")
			}
		case *cypher.RelationshipPattern:
			if t.Variable != nil {
				add(t.Variable.Symbol, "relationship")
			}
		case *cypher.IDInCollection:
			if t.Variable != nil {
				add(t.Variable.Symbol, "element")
				if c03VariablesIn(t.Expression)[t.Variable.Symbol] {
					add(t.Variable.Symbol, "own-source")
				}
			}
		case *cypher.Unwind:
			if t.Variable != nil {
				add(t.Variable.Symbol, "element")
			}
		}
		return true
	})
	for _, r := range roles {
		if len(r) > 1 {
			return true
		}
	}
	return false
}

// C03PathUsedAsEntity: `match p = (a)-->(b) where p.name = 'x'` – a property of a path. openCypher rejects it
// (a path has no properties); DAWGS accepts it and emits `(pc0).properties`, naming a FROM item `pc0` that does not
// exist. Shape: a property lookup whose atom is a path variable.
func C03PathUsedAsEntity(q *cypher.RegularQuery) bool {
	paths := c03PathVariables(C03Clauses(q))
	if len(paths) == 0 {
		return false
	}
	isPath := func(e any) bool {
		v, isVar := e.(*cypher.Variable)
		return isVar && v != nil && paths[v.Symbol]
	}
	return c03Contains(q, func(n any) bool {
		switch t := n.(type) {
		case *cypher.PropertyLookup:
			return t != nil && isPath(t.Atom)
		case *cypher.FunctionInvocation:
			if c03IsFunction(t, "id", "type", "labels", "startnode", "endnode") {
				for _, a := range t.Arguments {
					if isPath(a) {
						return true
					}
				}
			}
		}
		return false
	})
}

// C03PropertyOfScalarAlias: `with 'a' as u … where u.name = …` – a property of a value that is not an entity.
// DAWGS accepts it and emits `(s0.i0).properties` on a text / array column. Shape: a property lookup whose atom is
// a variable that a WITH introduces as the alias of something other than a variable, or that an UNWIND or a quantifier introduces
// (likewise labels / id / type / a kind test applied to it).
func C03PropertyOfScalarAlias(q *cypher.RegularQuery) bool {
	scalars, entityLists := map[string]bool{}, map[string]bool{}
	C03WalkModel(q, func(n any, _ []any) bool {
		switch t := n.(type) {
		case *cypher.With:
			if t.Projection != nil {
				for _, it := range t.Projection.Items {
					if pi, ok := it.(*cypher.ProjectionItem); ok && pi != nil && pi.Alias != nil {
						if _, isVar := pi.Expression.(*cypher.Variable); !isVar {
							scalars[pi.Alias.Symbol] = true
							// collect(n) is a list of entities; collect(n.name) is a list of values
							if f, isCall := pi.Expression.(*cypher.FunctionInvocation); isCall && f != nil && c03IsFunction(pi.Expression, "collect") && len(f.Arguments) == 1 {
								if _, ofVariable := f.Arguments[0].(*cypher.Variable); ofVariable {
									entityLists[pi.Alias.Symbol] = true
								}
							}
						}
					}
				}
			}
		case *cypher.Unwind:
			if t.Variable != nil {
				// unwinding a variable yields scalars when the variable is the alias of a list that is not a collect(…)
				if source, fromVariable := t.Expression.(*cypher.Variable); !fromVariable || source != nil && scalars[source.Symbol] && !entityLists[source.Symbol] {
					scalars[t.Variable.Symbol] = true
				}
			}
		case *cypher.IDInCollection:
			// the variable of a quantifier / filter expression ranges over list elements
			if t.Variable != nil {
				if _, fromVariable := t.Expression.(*cypher.Variable); !fromVariable {
					scalars[t.Variable.Symbol] = true
				}
			}
		}
		return true
	})
	if len(scalars) == 0 {
		return false
	}
	isScalar := func(e any) bool {
		v, isVar := e.(*cypher.Variable)
		return isVar && v != nil && scalars[v.Symbol]
	}
	return c03Contains(q, func(n any) bool {
		switch t := n.(type) {
		case *cypher.PropertyLookup:
			return t != nil && isScalar(t.Atom)
		case *cypher.KindMatcher:
			return t != nil && isScalar(t.Reference)
		case *cypher.FunctionInvocation:
			// entity functions applied to the scalar: labels(x), id(x), type(x) …
			if c03IsFunction(t, "labels", "id", "type", "startnode", "endnode") {
				for _, a := range t.Arguments {
					if isScalar(a) {
						return true
					}
				}
			}
		}
		return false
	})
}

// C03AliasShadowsOrSelfReference: `match (total) return count(*) as total order by total` – the alias has the name
// of a bound variable and ORDER BY resolves it to the variable; `with sum(n.age) as t, count(t) as c` – an item reads
// an alias of the same projection. openCypher rejects the second and gives the alias precedence in the first; DAWGS
// emits a reference to a column that the select does not have. Shape: a projection alias that equals a pattern
// variable of the query, or that another item of the same projection mentions.
func C03AliasShadowsOrSelfReference(q *cypher.RegularQuery) bool {
	cs := C03Clauses(q)
	patternVars := map[string]bool{}
	for _, c := range cs {
		if c.Match != nil {
			for v := range c03PatternVariables(c.Match.Pattern) {
				patternVars[v] = true
			}
		}
	}
	found := false
	C03WalkModel(q, func(n any, _ []any) bool {
		p, ok := n.(*cypher.Projection)
		if !ok || p == nil {
			return true
		}
		aliases := map[string]int{}
		for i, it := range p.Items {
			if pi, isItem := it.(*cypher.ProjectionItem); isItem && pi != nil && pi.Alias != nil {
				aliases[pi.Alias.Symbol] = i
				if v, isVar := pi.Expression.(*cypher.Variable); patternVars[pi.Alias.Symbol] && !(isVar && v != nil && v.Symbol == pi.Alias.Symbol) {
					found = true
				}
			}
		}
		for i, it := range p.Items {
			if pi, isItem := it.(*cypher.ProjectionItem); isItem && pi != nil {
				for v := range c03VariablesIn(pi.Expression) {
					if j, isAlias := aliases[v]; isAlias && j != i && !patternVars[v] {
						found = true
					}
				}
			}
		}
		return true
	})
	return found
}

// C03ListConcatenationWithCollect: `n.name + collect(m.name)` – the scalar operand of a list concatenation is cast
// to the pseudo type `any` (`(…)::any || …::anyarray`), which is not a type name PostgreSQL accepts in a cast.
// Shape: an arithmetic expression with a collect() operand and an operand that is not a collect() / list literal.
func C03ListConcatenationWithCollect(q *cypher.RegularQuery) bool {
	return c03Contains(q, func(n any) bool {
		ar, ok := n.(*cypher.ArithmeticExpression)
		if !ok || ar == nil {
			return false
		}
		operands := []cypher.Expression{ar.Left}
		for _, p := range ar.Partials {
			if p != nil {
				operands = append(operands, p.Right)
			}
		}
		strip := func(e cypher.Expression) cypher.Expression {
			for {
				p, isParen := e.(*cypher.Parenthetical)
				if !isParen || p == nil {
					return e
				}
				e = p.Expression
			}
		}
		collects, others := 0, 0
		for _, o := range operands {
			o = strip(o)
			if c03IsFunction(o, "collect") {
				collects++
			} else if _, isList := o.(*cypher.ListLiteral); !isList {
				others++
			}
		}
		return collects > 0 && others > 0
	})
}

// C03AggregateInWhere: `match (n) where count(*) > 1 return n` – openCypher rejects an aggregate in WHERE; DAWGS
// emits it and PostgreSQL rejects it ("aggregate functions are not allowed in WHERE"). Shape: an aggregate call
// below a WHERE or inside a MATCH pattern (inline property maps become WHERE conjuncts).
func C03AggregateInWhere(q *cypher.RegularQuery) bool {
	found := false
	C03WalkModel(q, func(n any, anc []any) bool {
		if c03IsAggregate(n) {
			for _, a := range anc {
				switch a.(type) {
				case *cypher.Where, *cypher.Match:
					// a property map of a pattern is a WHERE conjunct in disguise
					found = true
				case *cypher.Conjunction, *cypher.Disjunction, *cypher.ExclusiveDisjunction:
					// `return count(*) and count(*)`: the operands of a boolean connective are collected as
					// constraints and end up in WHERE, wherever the connective stands
					found = true
				}
			}
		}
		return true
	})
	return found
}

// C03ChainedNullTest: `x IS NULL IS NULL` is emitted without parentheses; IS [NOT] NULL is non-associative in
// PostgreSQL's grammar, so the second test is a syntax error. Shape: a null test whose operand is a null test.
func C03ChainedNullTest(q *cypher.RegularQuery) bool {
	isNullTest := func(n any) bool {
		cmp, ok := n.(*cypher.Comparison)
		if !ok || cmp == nil {
			return false
		}
		for _, p := range cmp.Partials {
			if p != nil {
				op := strings.ToLower(string(p.Operator))
				if op == "is" || op == "is not" || strings.HasPrefix(op, "is ") {
					return true
				}
			}
		}
		return false
	}
	found := false
	C03WalkModel(q, func(n any, anc []any) bool {
		if cmp, ok := n.(*cypher.Comparison); ok && cmp != nil && isNullTest(cmp) {
			nulls := 0
			for _, p := range cmp.Partials {
				if p != nil && strings.HasPrefix(strings.ToLower(string(p.Operator)), "is") {
					nulls++
				}
			}
			if nulls > 1 || isNullTest(cmp.Left) {
				found = true
			}
			if par, isPar := cmp.Left.(*cypher.Parenthetical); isPar && par != nil && false {
				_ = par
			}
		}
		return true
	})
	return found
}

// C03ParenthesisedVariableLookupBeforeWith: `where (n).name = 'a'` – the conjunct on a parenthesised variable is
// only placed by the final select; a WITH in between that does not project n leaves `((n0)).properties` dangling.
// Shape: a property lookup on a parenthesised expression in the WHERE of a MATCH whose query part ends in WITH.
func C03ParenthesisedVariableLookupBeforeWith(q *cypher.RegularQuery) bool {
	cs := C03Clauses(q)
	for i, c := range cs {
		if c.Match == nil || c.Match.Where == nil || !c03PartEndsWithWith(cs, i) {
			continue
		}
		if c03Contains(c.Match.Where, func(n any) bool {
			pl, ok := n.(*cypher.PropertyLookup)
			if !ok || pl == nil {
				return false
			}
			_, isParen := pl.Atom.(*cypher.Parenthetical)
			return isParen
		}) {
			return true
		}
	}
	return false
}

// C03EntityFunctionOnOtherEntityKind: type(n) of a node / labels(r) of a relationship. DAWGS accepts both and
// selects the field of the other composite type: `(s0.n0).kind_id` on a nodecomposite, `(s0.e0).kind_ids` on an
// edgecomposite (openCypher: type error). Shape: type() applied to a variable that some pattern declares as a
// node, or labels() applied to one that some pattern declares as a relationship.
func C03EntityFunctionOnOtherEntityKind(q *cypher.RegularQuery) bool {
	nodes, rels := map[string]bool{}, map[string]bool{}
	C03WalkModel(q, func(n any, _ []any) bool {
		switch t := n.(type) {
		case *cypher.NodePattern:
			if t != nil && t.Variable != nil {
				nodes[t.Variable.Symbol] = true
			}
		case *cypher.RelationshipPattern:
			if t != nil && t.Variable != nil {
				rels[t.Variable.Symbol] = true
			}
		}
		return true
	})
	return c03Contains(q, func(n any) bool {
		f, ok := n.(*cypher.FunctionInvocation)
		if !ok || f == nil || len(f.Arguments) != 1 {
			return false
		}
		v, isVar := f.Arguments[0].(*cypher.Variable)
		if !isVar || v == nil {
			return false
		}
		return c03IsFunction(f, "type") && nodes[v.Symbol] || c03IsFunction(f, "labels") && rels[v.Symbol]
	})
}

// C03AggregateCombinedWithBareVariable: `return count(2) * n` – an aggregate and a bare variable in one projection
// item. DAWGS derives grouping keys from property lookups and whole items, not from a bare variable inside an
// expression that also holds an aggregate: the select has no GROUP BY for it. Shape: a projection item that is not
// itself an aggregate call, contains one, and has a variable outside every aggregate that is not the atom of a
// property lookup or the argument of a function.
func C03AggregateCombinedWithBareVariable(q *cypher.RegularQuery) bool {
	found := false
	C03WalkModel(q, func(n any, _ []any) bool {
		pi, ok := n.(*cypher.ProjectionItem)
		if !ok || pi == nil || found {
			return !found
		}
		if c03IsAggregate(pi.Expression) || !c03Contains(pi.Expression, c03IsAggregate) {
			return true
		}
		if _, bare := pi.Expression.(*cypher.Variable); bare {
			return true
		}
		C03WalkModel(pi.Expression, func(m any, anc []any) bool {
			if c03IsAggregate(m) {
				return false
			}
			if _, isVar := m.(*cypher.Variable); isVar && len(anc) > 0 {
				switch anc[len(anc)-1].(type) {
				case *cypher.PropertyLookup, *cypher.FunctionInvocation:
				default:
					found = true
				}
			}
			return !found
		})
		return !found
	})
	return found
}

// C03WithOrderByAlias: since the ORDER BY of a WITH is emitted (fix 0d6bdc2) its sort keys are rendered on the
// WITH's own select. A key that names an alias of that WITH is only right when it is the bare alias of a computed
// item (`with n.name as a order by a` -> `order by i0`): the alias of a plain variable (`with a as b order by b`,
// `with n as m order by m.name`) is rendered under a binding of its own that no select item carries, and an
// expression over an alias (`order by v + 1`) names an output column inside an expression, which PostgreSQL does not
// resolve. Shape: a WITH whose ORDER BY mentions one of the WITH's aliases other than as the bare alias of an item
// that is not a plain variable.
func C03WithOrderByAlias(q *cypher.RegularQuery) bool {
	for _, c := range C03Clauses(q) {
		if c.With == nil || c.With.Projection == nil || c.With.Projection.Order == nil {
			continue
		}
		computed, aliases := map[string]bool{}, map[string]bool{}
		for _, it := range c.With.Projection.Items {
			if pi, ok := it.(*cypher.ProjectionItem); ok && pi != nil && pi.Alias != nil {
				aliases[pi.Alias.Symbol] = true
				if _, plain := pi.Expression.(*cypher.Variable); !plain {
					computed[pi.Alias.Symbol] = true
				}
			}
		}
		for _, si := range c.With.Projection.Order.Items {
			if si == nil {
				continue
			}
			if v, bare := si.Expression.(*cypher.Variable); bare && v != nil {
				if aliases[v.Symbol] && !computed[v.Symbol] {
					return true
				}
				continue
			}
			for v := range c03VariablesIn(si.Expression) {
				if aliases[v] {
					return true
				}
			}
		}
	}
	return false
}

// C03ExactRangeInlineMapReadsVariable: the exact-range lowering turns `-[:K*2..2 {key: value}]->` into fixed steps and
// builds the property constraint of every step from the SAME translated value expression
// (translate/relationship.go translateRelationshipPattern, property.go buildPatternPropertyConstraints). When the
// value reads a variable, the frame rewriter resolves it in place for the first step (`(s0.n1).properties`); the
// second step's constraint shares the node and keeps the first step's frame, which is not a FROM item of the second
// step's select (missing FROM-clause entry for table "s0"). Shape: a relationship with an exact range >= 2 and an
// inline property map with a value that mentions a variable.
func C03ExactRangeInlineMapReadsVariable(q *cypher.RegularQuery) bool {
	return c03Contains(q, func(n any) bool {
		r, ok := n.(*cypher.RelationshipPattern)
		if !ok || r == nil || r.Range == nil || r.Range.StartIndex == nil || r.Range.EndIndex == nil || r.Properties == nil {
			return false
		}
		if *r.Range.StartIndex != *r.Range.EndIndex || *r.Range.StartIndex < 2 {
			return false
		}
		return len(c03VariablesIn(r.Properties)) > 0
	})
}

// C03ReturnOrderByReadsAlias: the RETURN side of C03WithOrderByAlias. A bare RETURN alias as sort key is replaced by
// the alias text (rewriteOrderByProjectionAlias, root identifiers only). Any other key that reads an alias of the
// RETURN - a property of a renamed entity (`return n as m order by m.name`), an expression over a value alias
// (`return n.value as v order by v + 1`) - keeps the alias's own binding (`order by (n1.properties -> 'name')`,
// `order by i0 + 1`), which no FROM item of the final select carries. Shape: a RETURN whose ORDER BY has a key that
// is not a bare variable and mentions an alias of that RETURN.
func C03ReturnOrderByReadsAlias(q *cypher.RegularQuery) bool {
	for _, c := range C03Clauses(q) {
		if c.Return == nil || c.Return.Projection == nil || c.Return.Projection.Order == nil {
			continue
		}
		aliases := map[string]bool{}
		for _, it := range c.Return.Projection.Items {
			if pi, ok := it.(*cypher.ProjectionItem); ok && pi != nil && pi.Alias != nil {
				if v, plain := pi.Expression.(*cypher.Variable); plain && v != nil && v.Symbol == pi.Alias.Symbol {
					continue // `n as n`
				}
				aliases[pi.Alias.Symbol] = true
			}
		}
		for _, si := range c.Return.Projection.Order.Items {
			if si == nil {
				continue
			}
			if _, bare := si.Expression.(*cypher.Variable); bare {
				continue
			}
			for v := range c03VariablesIn(si.Expression) {
				if aliases[v] {
					return true
				}
			}
		}
	}
	return false
}

// C03WindowedWithLeavesConstraintsPending: a WITH that carries SKIP or LIMIT no longer consumes any pending
// constraint (fix 0d6bdc2 keeps its own WHERE above the window that way). Constraints that were already pending –
// the pattern predicates of the part's MATCH clauses, the WHERE of the previous WITH when that reads one of its own
// aliases – pass through as well and are placed by a later select, after the windowed WITH has cut off the
// bindings they read (and after the window instead of before it: the C01 side of the same root cause). Shape: a
// WITH with SKIP or LIMIT in a query part that has a pattern predicate in a MATCH WHERE or a shortest-path MATCH
// with a WHERE, or that follows a WITH which has a WHERE.
func C03WindowedWithLeavesConstraintsPending(q *cypher.RegularQuery) bool {
	cs := C03Clauses(q)
	for i, c := range cs {
		if c.With == nil || c.With.Projection == nil || c.With.Projection.Skip == nil && c.With.Projection.Limit == nil {
			continue
		}
		for j := i - 1; j >= 0; j-- {
			if cs[j].Part == c.Part {
				if cs[j].Match != nil && cs[j].Match.Where != nil {
					if c03Contains(cs[j].Match.Where, c03IsPatternPredicate) {
						return true
					}
					// the WHERE of a shortest-path MATCH that relates both endpoints cannot go into the harness
					// statements and stays pending as well
					for _, p := range cs[j].Match.Pattern {
						if p != nil && (p.ShortestPathPattern || p.AllShortestPathsPattern) {
							return true
						}
					}
				}
				continue
			}
			// the WITH that closes the previous query part
			if cs[j].With != nil && cs[j].With.Where != nil {
				return true
			}
			break
		}
	}
	return false
}
