package qcase

import (
	"testing"

	"verif/xlate"
)

// The predicates see through WHERE / AND / OR lists (they embed an unexported expression list).
func TestVisitReachesWhereOperands(t *testing.T) {
	m, err := xlate.Parse("match (n1) optional match (n4) where 'B' in labels(n4) and (n1)-->(n4) and n4.value = 1 return n1, sum(n4.value)")
	if err != nil {
		t.Fatal(err)
	}
	s := Analyse(Case{}, m)
	ms := s.AllMatches()
	if len(ms) != 2 || !ms[1].Match.Optional {
		t.Fatalf("unexpected shape: %d matches", len(ms))
	}
	if !callsFunction(ms[1].Match.Where, "labels") {
		t.Error("labels() in WHERE not found")
	}
	if !hasPatternPredicate(ms[1].Match.Where) {
		t.Error("pattern predicate in WHERE not found")
	}
	if !ReferencesVariable(ms[1].Match.Where) {
		t.Error("variables in WHERE not found")
	}
	if !SumAggregate(s) || !LabelsPredicateBeforeBoundary(s) {
		t.Error("predicates do not match")
	}
}
