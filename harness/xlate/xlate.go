// Package xlate wraps DAWGS's Cypher→PostgreSQL translation the way the PostgreSQL driver calls
// it (translate.Translate + translate.Translated) for use by the checks.
package xlate

import (
	"context"
	"fmt"
	"runtime/debug"
	"sync"

	"github.com/specterops/dawgs/cypher/frontend"
	"github.com/specterops/dawgs/cypher/models/cypher"
	cyformat "github.com/specterops/dawgs/cypher/models/cypher/format"
	"github.com/specterops/dawgs/cypher/models/pgsql"
	"github.com/specterops/dawgs/cypher/models/pgsql/translate"
	"github.com/specterops/dawgs/drivers/pg/pgutil"
	"github.com/specterops/dawgs/graph"
)

// AutoMapper is a kind mapper that knows every kind it is asked about (ids assigned on first
// use, under a mutex) — for checks that only look at the SQL text.
type AutoMapper struct {
	mu    sync.Mutex
	inner *pgutil.InMemoryKindMapper
}

func NewAutoMapper(kinds ...string) *AutoMapper {
	m := &AutoMapper{inner: pgutil.NewInMemoryKindMapper()}
	for _, k := range kinds {
		m.inner.Put(graph.StringKind(k))
	}
	return m
}

func (s *AutoMapper) MapKinds(ctx context.Context, kinds graph.Kinds) ([]int16, error) {
	s.mu.Lock()
	defer s.mu.Unlock()
	return s.inner.AssertKinds(ctx, kinds)
}

func (s *AutoMapper) AssertKinds(ctx context.Context, kinds graph.Kinds) ([]int16, error) {
	s.mu.Lock()
	defer s.mu.Unlock()
	return s.inner.AssertKinds(ctx, kinds)
}

// FixedMapper returns DAWGS's own in-memory mapper pre-populated with the given kinds (ids 1..n in
// order); unknown kinds are an error, as with the real driver.
func FixedMapper(kinds ...string) *pgutil.InMemoryKindMapper {
	m := pgutil.NewInMemoryKindMapper()
	for _, k := range kinds {
		m.Put(graph.StringKind(k))
	}
	return m
}

type Result struct {
	SQL    string
	Params map[string]any
	Raw    translate.Result
}

// Panic is returned (as error) when translation panicked.
type Panic struct {
	Value any
	Stack string
}

func (p *Panic) Error() string { return fmt.Sprintf("translation panicked: %v\n%s", p.Value, p.Stack) }

// TranslateWith translates and formats; a panic is returned as *Panic.
func TranslateWith(q *cypher.RegularQuery, params map[string]any, mapper pgsql.KindMapper) (res Result, err error) {
	defer func() {
		if p := recover(); p != nil {
			err = &Panic{Value: p, Stack: string(debug.Stack())}
		}
	}()
	raw, err := translate.Translate(context.Background(), q, mapper, params, 0)
	if err != nil {
		return Result{}, err
	}
	sql, err := translate.Translated(raw)
	if err != nil {
		return Result{}, err
	}
	return Result{SQL: sql, Params: raw.Parameters, Raw: raw}, nil
}

// Translate uses a fresh AutoMapper.
func Translate(q *cypher.RegularQuery, params map[string]any) (Result, error) {
	return TranslateWith(q, params, NewAutoMapper())
}

// Emit renders a model as Cypher text (the Neo4j path's emitter).
func Emit(q *cypher.RegularQuery) (text string, err error) {
	defer func() {
		if p := recover(); p != nil {
			err = fmt.Errorf("emitter panicked: %v", p)
		}
	}()
	return cyformat.RegularQuery(q, false)
}

// Parse parses with the unfiltered context; a panic is returned as an error.
func Parse(text string) (q *cypher.RegularQuery, err error) {
	defer func() {
		if p := recover(); p != nil {
			q, err = nil, fmt.Errorf("parser panicked: %v", p)
		}
	}()
	return frontend.ParseCypher(frontend.NewContext(), text)
}
