#!/usr/bin/env python3
"""Regenerates /verif/MANIFEST.json from the table below (kept next to the checks so that the
claimed set, levels and notes are edited in one place)."""
import json, os
ROOT = os.path.dirname(os.path.dirname(os.path.abspath(__file__)))

CLAIMED = {
 "C01": dict(
   category="translation_validation",
   technique="property-based differential testing (rapid): typed query/graph generator; the emitted SQL text is executed by a PostgreSQL model (pgsim) and compared with an independent openCypher 9 reference evaluator (refcypher) at the exact determinacy the query fixes; stored-case replay of every finding",
   text="Differential execution: each generated read query (node/relationship/variable-length patterns in all directions, multi-pattern and multi-MATCH, OPTIONAL MATCH, WITH pipelines, WHERE boolean/comparison/string/null/kind/IN/pattern predicates, quantifiers, UNWIND, aggregation, DISTINCT, ORDER BY/SKIP/LIMIT, path and entity functions, parameters) is parsed and translated by DAWGS; the emitted SQL with the emitted parameters is executed on pgsim over the DAWGS schema and the rows are compared with refcypher's at the determinacy openCypher fixes (sequence / bag / bag modulo list order / row count - obtained from an exact observation channel of the reference under four tie-break orders) over random small graphs with self loops, parallel edges, multi-kind and kind-less nodes, missing and mixed-type properties. Translation errors, SQL run-time errors and reference run-time errors are 'rejected', which the property allows.",
   note="Bounded by the generator fragment (no shortest-path execution, no writes, strings from [a-z0-9]*, graphs <= 6 nodes / 8 edges). PostgreSQL and openCypher are modelled, not run: pgsim and refcypher are calibrated against the repository's ~450 result-asserting integration cases (their package tests) and pgsim against the 373 golden statements. the open findings are excluded by named predicates over the query (one of them, optional-match-duplicate-origin-rows, for the first OPTIONAL MATCH extending a bound variable also evaluates the query prefix on the case's graph and applies only when two incoming rows really are equal) and counted (about 10% of cases); three documented DAWGS dialect choices are kept out of the generator (leading OPTIONAL MATCH = MATCH, property + property = concatenation, stricter typing) and one is modelled in the reference (negated string predicate on a missing property).",
   design="§4 C01, §7.5"),
 "C02": dict(
   category="translation_validation",
   technique="property-based metamorphic/differential testing (rapid, generator biased to the shapes the lowerings look for): optimised vs unoptimised translation (hook H1) executed on pgsim, optimiser rewrites checked on the reference evaluator, per-lowering ablation in the thorough tier",
   text="The optimised translation and the translation with all optimisation disabled (hook H1 translate.TranslateWithPlan with a plan that carries only a copy of the query) of the same generated query are both executed on pgsim over the same graph and must return the same result as far as openCypher determines it, and agree with the reference where the unoptimised one does; optimize.Optimize's rewritten Cypher is evaluated by refcypher and must mean the same as the original; a translation rejected on one side only is a violation; thorough: a plan with exactly one lowering class kept vs none. 12 of 14 lowering classes and 3 of 3 rewrite rules are exercised; the two shortest-path lowerings are flagged as never exercised (shortest paths are not executed).",
   note="8 open findings excluded by predicate. Cases where the unoptimised SQL already disagrees with the reference (open C01 defects) compare as bags or are skipped under SKIP/LIMIT windows. Type errors that pgsim detects only at evaluation time are skipped and attributed to C03. H1 mirrors translate.Translate step for step.",
   design="§4 C02, §7.5"),
 "C03": dict(
   category="exploration",
   technique="property-based testing (rapid): generated reads/updates/shortest paths, corpus (enumerated) and its mutations, grammar derivations, builder programs; oracle = PostgreSQL-conformant parser + name-resolution binder (pgsim.Parse / Bind / BindHarness) on the emitted text",
   text="Every statement DAWGS emits for typed generated reads (default and lowering-biased), a wider generator with updating clauses, shortest-path forms and deeper nesting, every shipped corpus query and token mutations of it, grammar derivations that translate, and query-builder programs is parsed and bound in the PostgreSQL model: every table, CTE, alias, column, composite field and @parameter must resolve to exactly one definition in scope (CTE visibility incl. recursion, FROM-item order, LATERAL, JOIN ON, correlated sub-queries, output aliases in ORDER BY/GROUP BY), CTE column lists must match their bodies, grouping must be legal, every SQL text handed to the shortest-path harness functions must parse and bind against the harness's temporary tables, and a data-modifying statement may appear only if the Cypher has an updating clause (independent reflection walk).",
   note="The binder is a model of PostgreSQL's parse analysis (calibrated: the 373 golden statements and 457 translated integration queries bind cleanly); operator/function type errors are counted, not judged; 34 open findings are excluded by syntactic predicates, some of them wide (about 55% of the 'wide' sub-check is excluded); plpgsql harness functions are bound, not executed.",
   design="§4 C03, §7.5"),
 "C04": dict(
   category="exploration",
   technique="property-based testing (rapid) with a metamorphic oracle on PostgreSQL token sequences (scan.l-conformant lexer), value read-back, recursion into SQL passed as text, real pgx named-argument rewriter; coverage-guided native fuzz target FuzzC04 (60 s) in the thorough tier",
   text="Generated hostile values (quotes, doubled quotes, backslashes, comment openers, dollar quotes, backticks, control and non-BMP runes, CR/LF/U+2028, U+FFFD, up to 64 KiB) x 116 query templates over literal / LIKE / property-key / kind / variable / alias / parameter positions incl. shortestPath and allShortestPaths (whose values are materialised into SQL text handed to the harness functions). Each query is translated with the hostile value and with a benign twin; the PostgreSQL token sequences must be equal except at the slot, which must be ONE string / identifier token whose decoded value equals what the Cypher text denotes (computed independently); the rule recurses into SQL carried in strings; parameters must pass through unchanged; the real pgx.NamedArgs rewriter must see exactly the same placeholders; the FromCypher comment header must lex as comments only.",
   note="PostgreSQL's lexer is modelled by sqltok (written from scan.l, standard_conforming_strings=on; UESCAPE and non-UTF-8 encodings not modelled); invalid UTF-8 and NUL are outside the domain; unescaped %/_ inside the value's own span are C01 territory; four open findings excluded by construction (alias case folding, 63-byte alias truncation, backticked kind names, LIKE on function operands).",
   design="§4 C04"),
 "C05": dict(
   category="exploration",
   technique="property-based testing (rapid): inputs from grammar derivations, corpus mutations, typed queries and builder programs; metamorphic oracles (repeat, deep-clone differential, marker non-interference, concurrent vs sequential) plus an input-immutability invariant (address-level reflection snapshots); race detector in the thorough tier",
   text="ASTs from six sources (random Cypher.g4 derivations, corpus mutations incl. literal->$param with fresh and bound-variable names, typed generated queries (one in three from the lowering / fast-path shaped templates), every shipped query, builder programs through package query, cypher model constructors) x parameter maps (31 supported and 25 unsupported value kinds, names that do / do not occur) x kind-mapper knowledge. Each case is decided by: no panic; marker interleaving A,B,A (no value of one call appears in another call's result, results stable); 5 repeated Translate+Translated calls byte-identical with equal parameter maps and stable error text; translation of an independent deep clone gives the same result; FromCypher; 8 goroutines on the shared AST, caller's map and one kind mapper; address-level snapshots of the AST and the parameter map compared after every phase.",
   note="Schedules are sampled (8 goroutines; -race in thorough only); totality is established only for explored shapes (10 panic/impurity roots found and repaired); 'within bounded time' is decided by the growth sub-check: 23 size-parameterised query families translated at n and 2n, allocation count (<= 16x) and, for allocation-free work, the clock ratio (> 64x with a floor of 250 ms) - an exponential translation is reported as growth; a translation that does not return within 60 s is reported by a watchdog as a violation with the query as replay file (scope sub-check: clause sequences that rebind, shadow and reorder variables); a write into spare slice capacity of a caller's slice shows only under -race.",
   design="§4 C05"),
 "C06": dict(
   category="exploration",
   technique="metamorphic property-based testing (rapid): binding-aware renaming applied to the parsed model (own scope analysis, cross-checked by emit + re-parse), PostgreSQL-token differential of the two translations",
   text="Every shipped translatable query under 5 systematic hostile renamings (enumerated), plus randomised adversarial renamings of shipped and typed-generated multi-clause read queries (WITH aliases, UNWIND, quantifier and path variables, pattern predicates, parameters, ORDER BY on aliases): user variables, parameters and aliases are renamed injectively per scope into fresh names, translator-internal identifiers (n0 e0 s0 i0 pi0 path depth root_id ...), SQL keywords, case variants and cross-namespace collisions; the SQL token sequences of Q and rho(Q) must be equal except result-column labels of the outermost SELECT (and bare ORDER BY references to them), which map by rho; emitted parameter maps must be equal; rho(Q) translates whenever Q does and never panics.",
   note="Tokens, not execution, are judged (semantic consequences of capture are C01's); names needing backticks are C04's; four open findings are excluded by construction (ORDER BY alias emitted as a bare identifier, aggregate-count alias used as a CTE column, alias shadowing a visible variable, symbol-keyed liveness analyses) - while the last two are open, per-scope reuse of one name is switched off.",
   design="§4 C06"),
 "C07": dict(
   category="exploration",
   technique="property-based testing (rapid): grammar-derivation, corpus-mutation and sibling generators; round-trip (emit-parse fixed point) and metamorphic (content-token multiset, single-token sibling, spelling-synonym) oracles; coverage-guided native fuzz target FuzzC07 (90 s) in the thorough tier",
   text="For every generated text accepted by frontend.ParseCypher(NewContext()): emit-parse is a fixed point with structurally equal models, the multiset of content tokens (names, literals by value, keywords, operators, range bounds - taken with DAWGS's own ANTLR lexer) of the input equals that of the emitted text up to a stated list of openCypher notational equivalences, and a sibling text differing in one meaning-bearing token has a different model. Texts come from random derivations of the shipped Cypher.g4 (all parser rules, unsupported constructs included), the whole query corpus of the tree (enumerated) and token mutations of it. Sampling: the accepted language is infinite; the failures found (16 fixed) were all shallow.",
   note="The notational-equivalence list (*.. = *, *n = *n..n, <--> = --, repeated kinds, reserved words as schema names, ASC default, grouping punctuation) is part of the trusted base; an accepted text in which the lexer found stretches that are no token is a violation (they were dropped); rejected inputs carry no obligation here (C08); acceptance rate of grammar derivations ~20-25%.",
   design="§4 C07"),
 "C08": dict(
   category="exploration",
   technique="property-based testing / generated-input robustness (rapid): raw lexeme soup, corpus mutations, every corpus prefix (enumerated), grammar derivations; totality + result-shape oracle; allocation-growth measurement on size families; coverage-guided native fuzz target FuzzC08 (90 s) in the thorough tier",
   text="Generated byte strings (random lexeme/rune/byte concatenations incl. invalid UTF-8, 1-3 token/byte mutations of corpus queries, every prefix of corpus queries, token-boundary prefixes followed by a dangling operator / sign / bracket / keyword, grammar derivations) are parsed under NewContext() and DefaultCypherContext(): no panic, never (nil,nil), blank input rejected, and a model returned with a nil error must be printable by the emitter and walkable. 'Bounded' is decided by a deterministic allocation-count growth exponent (n vs 4n) over 20 size-parameterised nesting/chain families, not by wall clock; a parse that does not return within 30 s is reported by a watchdog as a violation with the input as replay file.",
   note="Inputs up to a few KB (families up to 4000 repetitions in thorough); stack exhaustion at megabyte-deep nesting is outside the explored bound; 'not partially built' is read as 'printable and walkable'.",
   design="§4 C08"),
 "C09": dict(
   category="exploration",
   technique="property-based / metamorphic testing (rapid): clause-insertion variants of accepted corpus queries, grammar derivations; independent reflection walk of the model and PostgreSQL-token scan of the translated SQL as oracles",
   text="Every corpus query accepted by DefaultCypherContext() is combined with one inserted construct out of 22 (CREATE, MERGE with actions, SET =/+=/:label, REMOVE, DELETE, DETACH DELETE, FOREACH, CREATE UNIQUE, in-query and standalone CALL, $param in several positions, legacy {param}) at every clause boundary: the variant must be rejected (non-trivial when the unfiltered context accepts it). Everything the default context accepts - corpus (enumerated), variants, grammar derivations with updating clauses at elevated frequency - is walked by reflection for updating-clause/parameter nodes, scanned lexically for updating/CALL/$ tokens, and, when it translates, its SQL is scanned with a PostgreSQL-conformant lexer for INSERT/UPDATE/DELETE/MERGE.",
   note="Insertion positions are token-level clause boundaries (about half of the variants are grammatical); nesting depth of the inserted clause is whatever the grammar allows at top level plus what grammar derivations reach; the reflection walk and the lexers are the trusted base.",
   design="§4 C09"),
 "C10": dict(
   category="exploration",
   technique="property-based round-trip/differential testing (rapid) with a normal-form comparison plus a reference three-valued evaluator (bindings + truth tables) as arbiter",
   text="Generated builder programs (criteria trees over And/Or/Xor/Not, all predicates, kinds, projections, updates, allShortestPaths; literal/parameter values incl. int extremes, integral/huge floats, hostile strings; direct cypher-model compositions) are built once and applied to query.Builder (PG-path model) and neo4j.QueryBuilder (text); the text is re-parsed and its normal form (grouping, operand order, any-of/all-of kinds, typed literals, parameters by symbol and map value) must equal that of the parameter-rewritten model after the documented Neo4j rewrites; both criteria are additionally evaluated on generated bindings and three-valued truth tables. Sampling, not proof: the program space is unbounded while precedence/kind/literal slips are shallow and shrink to 2-3 node programs.",
   note="Rendering twice, and Prepare-Render-PrepareAllShortestPaths-Render on one builder, must send what a fresh builder sends. A second Neo4j query assembled from the SAME criteria values must be the same text with the same parameters; look-alike list pairs (same %v text, different values) are drawn into one case. Associative re-grouping of the same operator is accepted. Empty lists/kinds/maps, raw string literals, NaN/Inf and unsigned values above MaxInt64 as literals are outside the domain. Two open findings are excluded by construction: MinInt64 literal, nested arithmetic operands. Evaluator semantics are the check's own three-valued model, not Neo4j's.",
   design="§4 C10"),
 "C11": dict(
   category="exploration",
   technique="property-based testing (rapid): reflection-driven structure generator + corpus + builder programs; reference-model oracle (reflective tree clone / reflection-derived child sets), metamorphic two-sided mutation, trace-prefix/prune prediction for visitor plans",
   text="cypher.Copy and walk.CypherStructural / walk.Cypher / walk.PgSQL decided on generated models: every node type of package cypher (57/57, registry checked against the package source at run time) filled field-by-field through reflection, plus parser output for the corpus queries, plus random programs over package query; walk.PgSQL on translate.Translate output of the same corpus. Copy: strict structural equality, disjoint pointer/map/slice identity sets, two-sided mutate-every-leaf against independently built twins. Walks: baseline trace vs reflection-derived children (exactly once), semantic subset of structural, Done/Error/Consume plans compared with the predicted trace, nil root / nil list element must error.",
   note="Not decided: sharing of opaque `any` payloads; completeness of walk.PgSQL; typed-nil interface values; data-modifying pgsql statements (open finding C11-pgsql-walk-dml, excluded by construction).",
   design="§4 C11"),
 "C12": dict(
   category="exploration",
   technique="stateful property-based testing (rapid): model-based oracle plus round-trip invariant (loaded + delta = current), aliasing metamorphic check (untouched sibling unchanged)",
   text="Generated edit/fork/merge histories over families of Properties, Relationships and Nodes sharing one loaded state (built the way the pg and neo4j drivers build loaded entities); after every step every entity is compared with a last-edit-wins model, its change sets must be disjoint and, applied to the loaded state, reproduce the current state; a fifth sub-check (pgstmt) reads the relationship property statements of drivers/pg/statements.go from the source, evaluates their SET expression with pgsim on stored properties and the tracked delta and demands the entity's current state; a fourth sub-check (pgarray) reads the text[] literal that carries tracked deletions to the pg batch update with an array_in reader written from the PostgreSQL manual; the node's own slices are handed to AddKinds / DeleteKinds; a third sub-check makes the kind values for one fresh name in 2-16 goroutines at the same moment and deletes / adds kinds across them; nil is one of the property values; a second scenario builds all nodes from one shared Kinds slice.",
   note="Bounded: <=5 entities, <=14 (24) steps, 4-key/4-kind alphabets; Merge judged only inside a family sharing a loaded state (batch upsert of fresh entities is outside the statement). Open finding: Properties.Merge copies the other side's whole map (excluded by construction).",
   design="§4 C12"),
 "C13": dict(
   category="exploration",
   technique="stateful property-based testing (rapid) against a map model; porcupine linearizability + race detector for the wrappers",
   text="Generated operation histories over every receiver/operand pairing of {bitmap, threadSafe, threadSafe(threadSafe)} x {32,64 bit} are compared with a map[T]struct{} model after every step (cardinality, slice, each, contains, operand unchanged, clones independent); concurrent histories on one wrapper are checked for per-key linearizability with porcupine and run under the race detector in both tiers. Sampling, not proof: right level because the state space (values x histories x schedules) is unbounded but failures are shallow and shrink well.",
   note="A second generated family (large) describes sets by runs of up to 10000 members (container-type and batch-size boundaries: 511/512/513, 4095/4096/4097), overlapping operands in all wrappings and early-stopped iteration, with the same model comparison after every operation. A burst sub-check lets 2-16 goroutines offer the same 200-3000 absent values to CheckedAdd at the same moment: every value is answered 'new' exactly once. Receiver and operand are distinct objects that do not wrap each other; schedules are sampled (GOMAXPROCS varied), not enumerated; the roaring library is inside the tested system.",
   design="§4 C13"),
 "C14": dict(
   category="exploration",
   technique="property-based testing (rapid) with a naive edge-list reference model, differential comparison of 5 builders + projections, round-trip oracles for segments and the BFS tree file, small-scope exhaustive enumeration",
   text="Generated multigraphs and projection chains (arbitrary uint64 ids, self loops, parallel/antiparallel edges, isolated nodes) are built into the adjacency-map graph, CSR, fetched CSR, triplestore and its projections and compared with a naive edge-list model (node set, adjacency sets in 3 directions, early stop, Reach, BFS distances, Normalize bijection); TSBFS/TSDFS against recursive enumeration; segment and BFS-tree-file round trips; the container's own AdjacentNodes is called and the adjacency re-read afterwards (a read must not change what later reads return). Thorough additionally enumerates all labelled graphs on <=3 nodes x deleted-node sets x <=1 deleted edge and all 65536 edge sets on 4 nodes.",
   note="No proof beyond 4 nodes; random part samples graphs up to 10 nodes/24 edges; TSBFS/TSDFS only inbound/outbound with bounded depth or acyclic input (callers' domain); base-triplestore DeleteEdge and DirectionBoth walks out of scope.",
   design="§4 C14"),
 "C15": dict(
   category="exploration",
   technique="stateful property-based testing (rapid) with BFS reference model + bounded exhaustive enumeration",
   text="Generated digraphs (CSR and adjacency-map) x cache capacities {<=0,1,2,3,n,100} x generated query histories over all five exported reachability calls in both directions, each answer compared with BFS on the original edge list after every query; an eviction-focused generator; SCC/condensation invariants against mutual reachability; plus an exhaustively enumerated sub-space (all 1024 DAGs on 5 ordered nodes x id order x direction x capacity x ordered first-query pairs).",
   note="Graphs <= 8 nodes (12 thorough); cache content is observed only through answers and Stats().Hits(); single goroutine; answers to DirectionBoth queries are outside the verdict, but such queries are part of the histories (1 op in 8).",
   design="§4 C15"),
 "C16": dict(
   category="exploration",
   technique="stateful property-based testing (rapid) with reference model + linearizability checking (porcupine, per-key partitions) + Go race detector + stop-the-world deadlock snapshot",
   text="Generated sequential and concurrent Put/Get/Delete histories on both cache implementations over capacities {-1,0,1,2,3,8}, compared with a map-with-spontaneous-eviction model (hit = latest undeleted put, size statistic = number of keys that hit <= effective capacity); per-key linearizability via porcupine; lock-free size polling during concurrent runs; race detector in both tiers; deadlock decided from goroutine snapshots; the in-tree user (ReachabilityCache) checked for the size bound.",
   note="Histories <= 56 ops sequential / <= 6 goroutines x 60 ops concurrent; schedules are whatever the Go scheduler produced under GOMAXPROCS {1,2,4,8} with yields; capacity <= 0 read as 1 for SIEVE (documented) and 0 for the non-expiring map; evicted entries assumed not to reappear without a new put.",
   design="§4 C16"),
 "C17": dict(
   category="exploration",
   technique="property-based testing (rapid) with reference-model oracle (sequential expansion / path enumeration), fault injection at the k-th driver call, schedule perturbation, testing/synctest bubbles for deterministic deadlock and leak detection, Go race detector in both tiers",
   text="Generated BufferedPipe schedules (writers x reader behaviour x close/cancel), BreadthFirst expansion plans with fault plans (driver error, visitor error, cancellation, memory limit at the k-th call; 1-8 workers), and stored graphs with traversal plans for the sequential helpers are run under the race detector inside synctest bubbles and decided against a sequential reference expansion: exactly-once multiset equality, returned error identity, termination and goroutine-leak freedom (durably blocked bubble = failure, no timeouts), path-tree size accounting.",
   note="Goroutine interleavings are sampled, not enumerated; 'promptly' = returned and joined without further driver progress; sequential helpers run on the in-memory fakedb; AcyclicTraverseTerminals decided as 'every reachable sink, nothing unreachable'; node sets under skip/limit: drawn from the plan's set, at most limit, and of exactly the size filter+skip+limit fix when every reachable node has one way in; traversal.UniquePathSegmentFilter under 1-16 workers on fan-in graphs, each plan run ten times with several workers (each edge admitted at most once, exactly the considered edges on acyclic plans); the pattern driver with one worker against the same driver with N workers; after BreadthFirst returns, with the caller's context still live, no other goroutine of the bubble may sit in DAWGS code; node ids may agree in their low 32 bits; an enumerated pipe-bulk check puts one writer 65536-70000 values ahead of any reader.",
   design="§4 C17"),
 "C18": dict(
   category="exploration",
   technique="property-based testing (rapid), round-trip + reference-model oracle (independent manifest recomputation and metrics model), shrinking to a replayable JSON case",
   text="Property-based round trip over generated multi-graph databases (ids with gaps, kind-less nodes, parallel edges, nested/unicode/large-integer property values, empty graphs, kind names containing a comma, graph names that differ by case only, ids from 0 up to 2^64-1, a destination that numbers from 0 or from 1) x codec {none,gzip,zstd} x batch/shard sizes around the entity counts: Dump -> independent recomputation of the manifest from the bytes on disk (digests, sizes, counts, shard bounds, file set, metrics) -> Load into an empty in-memory database -> canonical graph comparison (numbers as exact decimals) -> Verify against source, loaded and a perturbed database judged by an independent metrics model.",
   note="The in-memory fakedb replaces the driver (no PostgreSQL/Neo4j behaviour); the 'exactly when' direction of Verify is decided only up to what the metrics fingerprint records (property-only changes are not judged); without uid properties the multiset comparison is necessary, not sufficient, for isomorphism.",
   design="§4 C18"),
 "C19": dict(
   category="fault_enumeration",
   technique="property-based fault enumeration with a snapshot oracle (in-process crash-point hook H2 + fakedb fault plan), differential against the uninterrupted dump and the C18 round-trip oracle; strace SIGKILL cross-check in the thorough tier",
   text="Per generated (database <= 12 entities, 1-3 graphs, codec, batch/shard sizes, scrub) case: exhaustive over every file-system step of the dump (hook H2: what is on disk before each step is what a kill -9 would leave) incl. torn writes, every database read/record error, cancellation at every step, forced file-system errors at checkpoint/manifest writes and renames, closed under crash-again-during-resume (fixpoint over distinct directory states, memoised by content). Every state is judged: a manifest exists only for a complete dump; recorded fragments are published and intact; Resume either errors leaving recorded fragments byte-identical or completes equal to the uninterrupted dump (manifest consistent, Load reproduces the source, no checkpoint/temp left); resume with changed options, a changed source or an unaccounted file must fail. Thorough adds real SIGKILLs at syscall boundaries via strace.",
   note="Exhaustive within a case, sampled across cases (quick 20, thorough 128); the file system is modelled as in-order with atomic rename and tearable writes (no fsync / power-loss reordering); I0 (recorded => published, fragments => checkpoint or manifest) is the harness's reading of 'committed fragments'; an always-refusing resume would pass (completion rates are reported in evidence); fakedb replaces the driver.",
   design="§4 C19"),
 "C20": dict(
   category="fault_enumeration",
   technique="property-based fault enumeration: enumerated byte/truncation sweeps and rapid-generated structural mutations with shrinking and replay; oracles = fakedb mutation log, sandbox tree hash, graph isomorphism, portable tar-stream model; coverage-guided native fuzz target FuzzC20 (60 s) in the thorough tier",
   text="Every byte position and every truncation length of small dumps, their tar and HPKE archives and key files (all codecs), plus enumerated fragment/frame operations, generated manifest edits (36 kinds incl. a whole entry taken from another graph, hostile paths), hostile tar streams (absolute/parent/volume/backslash names, links, devices, FIFOs, oversize/lying sizes, duplicates, PAX records) and wrong/malformed keys, each driven through Load, UnpackTar, UnpackEncryptedCollectionArchive, Unpack and Load(ArchiveReader) inside a hashed sandbox with a logging in-memory database: an error must come before any node/relationship write, nothing outside the output directory may change, owners of a destination leave no partial output, success is accepted only with the identical tree / an isomorphic graph, an encrypted archive opens only with the matching key; a forge sub-check rewrites the manifest so that it agrees with an edited payload (sizes, hashes, counts recomputed) and accepts the load only when the forged dump is self-consistent.",
   note="quick: all positions of the smallest dump directory and of the private key file, strided tar/archive, sampled rest; thorough: all positions x 2 masks x all 12 fixtures across 8 shards. 'No partial output' asserted for Unpack and Load(ArchiveReader) only (the building blocks extract straight into the directory they are handed); unsigned manifest: an accepted mutation must give an identical result; effects observed on Linux with a portable POSIX+Windows name model; disk exhaustion (sparse expansion) not judged.",
   design="§4 C20"),
}

NOT_YET = {}

def main():
    props = [json.loads(l) for l in open(os.path.join(ROOT, "properties.jsonl"))]
    checks = []
    na = []
    for p in props:
        pid = p["id"]
        c = CLAIMED.get(pid)
        if c is None:
            na.append({"property_id": pid, "reason": NOT_YET.get(pid, "no check registered yet in this revision of /verif (work in progress; see DESIGN.md §6 build order)")})
            continue
        checks.append({
            "property_id": pid,
            "quick_cmd": f"./check {pid} quick",
            "thorough_cmd": f"./check {pid} thorough",
            "evidence_file": f"/verif/evidence/{pid}.json",
            "replay_cmd_template": "./check --replay {path}",
            "engine": "harness",
            "level_claimed": {"category": c["category"], "text": c["text"], "design_ref": c["design"]},
            "level_note": c["note"],
            "technique": c["technique"],
        })
    hooks_commits = []
    hc = os.path.join(ROOT, "hooks_commits.txt")
    if os.path.exists(hc):
        hooks_commits = [l.split()[0] for l in open(hc) if l.strip() and not l.startswith("#")]
    m = {
        "version": 1,
        "setup_cmd": "./check --build",
        "hooks": {
            "guard": "verif",
            "enable": "go build tag: every check compiles /repo with `-tags verif` (see ./check build())",
            "baseline_off_cmd": "cd /repo && GOFLAGS=-mod=mod GOPROXY=off go test -json -vet=off -count=1 -timeout 25m ./...",
            "source_commits": hooks_commits,
            "add_only": True,
        },
        "engines": [
            {"name": "harness", "path": "/verif/harness", "serves_properties": sorted(CLAIMED), "kind_free_text": "Go module: rapid generators + oracles per property (props/cNN), shared evidence/replay/known-findings plumbing (evid), driven by /verif/check"},
        ],
        "checks": checks,
        "not_applicable": na,
        "notes": "Family: property-based testing and fuzzing. Every check is `./check <ID> <tier>`; exit 0 held / 1 VIOLATION / 2 inconclusive. known_findings.json lists fixed and open genuine defects.",
    }
    with open(os.path.join(ROOT, "MANIFEST.json"), "w") as f:
        json.dump(m, f, indent=1)
        f.write("\n")

if __name__ == "__main__":
    main()
