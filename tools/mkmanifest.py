#!/usr/bin/env python3
"""Regenerates /verif/MANIFEST.json from the table below (kept next to the checks so that the
claimed set, levels and notes are edited in one place)."""
import json, os
ROOT = os.path.dirname(os.path.dirname(os.path.abspath(__file__)))

CLAIMED = {
 "C13": dict(
   category="exploration",
   technique="stateful property-based testing (rapid) against a map model; porcupine linearizability + race detector for the wrappers",
   text="Generated operation histories over every receiver/operand pairing of {bitmap, threadSafe, threadSafe(threadSafe)} x {32,64 bit} are compared with a map[T]struct{} model after every step (cardinality, slice, each, contains, operand unchanged, clones independent); concurrent histories on one wrapper are checked for per-key linearizability with porcupine and run under the race detector. Sampling, not proof: right level because the state space (values x histories x schedules) is unbounded but failures are shallow and shrink well.",
   note="Receiver and operand are distinct objects that do not wrap each other; schedules are sampled (GOMAXPROCS varied), not enumerated; the roaring library is inside the tested system.",
   design="§4 C13"),
}

NOT_YET = {}

def main():
    props = [json.loads(l) for l in open(os.path.join(ROOT, "properties.jsonl"))]
    checks = []
    na = []
    for p in props:
        pid = p["id"]
        c = CLAIMED.get(pid)
        if c is None:
            na.append({"property_id": pid, "reason": NOT_YET.get(pid, "no check registered yet in this revision of /verif (work in progress; see DESIGN.md §6 build order)")})
            continue
        checks.append({
            "property_id": pid,
            "quick_cmd": f"./check {pid} quick",
            "thorough_cmd": f"./check {pid} thorough",
            "evidence_file": f"/verif/evidence/{pid}.json",
            "replay_cmd_template": "./check --replay {path}",
            "engine": "harness",
            "level_claimed": {"category": c["category"], "text": c["text"], "design_ref": c["design"]},
            "level_note": c["note"],
            "technique": c["technique"],
        })
    hooks_commits = []
    hc = os.path.join(ROOT, "hooks_commits.txt")
    if os.path.exists(hc):
        hooks_commits = [l.split()[0] for l in open(hc) if l.strip() and not l.startswith("#")]
    m = {
        "version": 1,
        "setup_cmd": "./check --build",
        "hooks": {
            "guard": "verif",
            "enable": "go build tag: every check compiles /repo with `-tags verif` (see ./check build())",
            "baseline_off_cmd": "cd /repo && GOFLAGS=-mod=mod GOPROXY=off go test -json -vet=off -count=1 -timeout 25m ./...",
            "source_commits": hooks_commits,
            "add_only": True,
        },
        "engines": [
            {"name": "harness", "path": "/verif/harness", "serves_properties": sorted(CLAIMED), "kind_free_text": "Go module: rapid generators + oracles per property (props/cNN), shared evidence/replay/known-findings plumbing (evid), driven by /verif/check"},
        ],
        "checks": checks,
        "not_applicable": na,
        "notes": "Family: property-based testing and fuzzing. Every check is `./check <ID> <tier>`; exit 0 held / 1 VIOLATION / 2 inconclusive. known_findings.json lists fixed and open genuine defects.",
    }
    with open(os.path.join(ROOT, "MANIFEST.json"), "w") as f:
        json.dump(m, f, indent=1)
        f.write("\n")

if __name__ == "__main__":
    main()
