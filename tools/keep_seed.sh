#!/bin/bash
# keep_seed.sh <PROP> <seed-worktree> <pkgdir> <tags-or-> <run-regex> <caught-note>
# Confirms the demonstration (red with the patch, green without) in the seed worktree, then files the change
# under /verif/seeded/<PROP>-<n>/ with a meta.json that records what was run.
set -u
PROP=$1; WT=$2; PKG=$3; TAGS=$4; RUN=$5; NOTE=$6
export GOFLAGS=-mod=mod GOPROXY=off
cd $WT || exit 2
git checkout -q -- . 2>/dev/null
DEMO=$PKG/zz_seed_demo_test.go
if [ "$PKG" = "SEED" ]; then DEMO=/dev/null/none; else cp SEED/demo_test.go $DEMO; fi
TAGARG=""; [ "$TAGS" != "-" ] && TAGARG="-tags $TAGS"
go test $TAGARG -vet=off -count=1 -run "$RUN" ./$PKG/ >/tmp/keep_seed_clean.log 2>&1; CLEAN=$?
git apply SEED/patch.diff || { echo "patch does not apply"; exit 2; }
go test $TAGARG -vet=off -count=1 -run "$RUN" ./$PKG/ >/tmp/keep_seed_patched.log 2>&1; PATCHED=$?
[ "$PKG" = "SEED" ] || rm -f $DEMO
SUITE=$(go test -vet=off -count=1 ./... 2>&1 | grep -c "^FAIL\|^--- FAIL")
git checkout -q -- .
echo "demo without patch exit=$CLEAN, with patch exit=$PATCHED, suite FAIL lines with patch=$SUITE"
if [ $CLEAN -ne 0 ] || [ $PATCHED -eq 0 ] || [ $SUITE -ne 0 ]; then echo "NOT CONFIRMED"; tail -5 /tmp/keep_seed_clean.log /tmp/keep_seed_patched.log; exit 1; fi
N=1; while [ -d /verif/seeded/$PROP-$N ]; do N=$((N+1)); done
D=/verif/seeded/$PROP-$N; mkdir -p $D
cp SEED/patch.diff $D/patch.diff; cp SEED/demo_test.go $D/demo_test.go
python3 - "$D" "$PROP" "$PKG" "$TAGS" "$RUN" "$NOTE" <<'PY'
import json,sys,os
d,prop,pkg,tags,run,note=sys.argv[1:7]
src=json.load(open('SEED/meta.json'))
meta={"property":prop,"summary":src.get("summary"),"needs":src.get("needs"),"files":src.get("files"),
 "origin":"independent sub-agent given only the property text and a scratch worktree",
 "author_verification":src.get("how_verified"),
 "confirmed_by_lead":{"demo":f"copied demo_test.go to {pkg}/zz_seed_demo_test.go; go test {'-tags '+tags if tags!='-' else ''} -run '{run}' ./{pkg}/ : exit 0 without the patch, non-zero with it",
   "suite":"go test -vet=off -count=1 ./... with the patch: no FAIL line","base_commit":os.popen('git -C /repo log --format=%h -1').read().strip()},
 "detection":note}
json.dump(meta,open(os.path.join(d,'meta.json'),'w'),indent=1)
PY
echo "kept as $D"
