#!/bin/bash
# try_seed.sh <PROP> <patch.diff> [tier]  — apply a property-breaking patch to a scratch worktree of /repo HEAD,
# confirm the baseline suite still passes there, run the property's check against it, remove the worktree.
set -u
PROP=$1; PATCH=$(readlink -f $2); TIER=${3:-quick}
WT=/tmp/try-$PROP-$$
export GOFLAGS=-mod=mod GOPROXY=off
git -C /repo worktree add -q --detach $WT HEAD || exit 2
cd $WT && git apply $PATCH || { echo "PATCH DOES NOT APPLY"; git -C /repo worktree remove --force $WT; exit 2; }
if go build ./... 2>&1 | tail -3 | grep -q .; then echo "BUILD FAILS"; fi
FAILS=$(go test -vet=off -count=1 ./... 2>&1 | grep -c "^FAIL\|^--- FAIL")
echo "suite-with-patch: FAIL-lines=$FAILS"
cd /verif && VERIF_REPO=$WT ./check $PROP $TIER 2>&1 | grep -v "^    " | cut -c1-400 | head -12
echo "check-exit=${PIPESTATUS[0]}"
git -C /repo worktree remove --force $WT
rm -f /verif/.build/*.$(echo -n $WT | sha1sum | cut -c1-10)*.test
