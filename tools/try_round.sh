#!/bin/bash
# try_round.sh <PROP> <seed-worktree> "<VERIF_SEED values>" — run the property's quick check against every
# SEED*/patch.diff of a seed agent's worktree (each in its own scratch worktree of /repo HEAD).
PROP=$1; SW=$2; SEEDS=${3:-"20260925 11"}
for d in $SW/SEED $SW/SEED2 $SW/SEED3; do
  [ -f $d/patch.diff ] || continue
  wt=/tmp/tr-$PROP-$(basename $d)
  git -C /repo worktree add -q --detach $wt HEAD || continue
  if ! git -C $wt apply $d/patch.diff 2>/dev/null; then echo "$PROP $(basename $d) PATCH-DOES-NOT-APPLY"; git -C /repo worktree remove --force $wt; continue; fi
  line="$PROP $(basename $d)"
  for s in $SEEDS; do
    VERIF_REPO=$wt VERIF_SEED=$s /verif/check $PROP quick >/tmp/tr-$PROP-$(basename $d).$s.log 2>&1; rc=$?
    line="$line $s=$rc[$(grep -o 'check=[a-z0-9_-]*' /tmp/tr-$PROP-$(basename $d).$s.log | sort -u | tr '\n' ' ')]"
  done
  echo "$line"
  git -C /repo worktree remove --force $wt
  rm -f /verif/.build/*.$(echo -n $wt | sha1sum | cut -c1-10)*.test
done
