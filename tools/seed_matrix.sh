#!/bin/bash
# seed_matrix.sh "<VERIF_SEED values>" [seeded dirs…]  — detection matrix: every seeded change against the quick tier
# of its property at several generator seeds (4 changes at a time, each in its own scratch worktree).
# Output: one line per change: <id> seed=exit … ; exit 1 = caught, 0 = missed, 2 = inconclusive.
SEEDS=${1:-"20260925 3 11"}; shift
DIRS=${@:-$(ls -d /verif/seeded/C*/ | sort -V)}
one() {
  d=${1%/}; id=$(basename $d); prop=${id%%-*}; wt=/tmp/mx-$id
  git -C /repo worktree add -q --detach $wt HEAD 2>/dev/null || { echo "$id worktree-failed"; return; }
  if ! git -C $wt apply $d/patch.diff 2>/dev/null; then echo "$id PATCH-DOES-NOT-APPLY"; git -C /repo worktree remove --force $wt; return; fi
  line="$id"
  for s in $SEEDS; do
    VERIF_REPO=$wt VERIF_SEED=$s /verif/check $prop quick >/tmp/mx-$id.$s.log 2>&1; line="$line $s=$?"
  done
  echo "$line"
  git -C /repo worktree remove --force $wt
  rm -f /verif/.build/*.$(echo -n $wt | sha1sum | cut -c1-10)*.test /tmp/mx-$id.*.log
}
export -f one; export SEEDS
printf '%s\n' $DIRS | xargs -P 4 -I{} bash -c 'one {}'
