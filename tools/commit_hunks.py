#!/usr/bin/env python3
"""commit_hunks.py <diff-file> <hunk,indices> <message> [<body>] — stage the selected hunks of a saved
`git diff` (numbered as printed by --list) in /repo's index and commit them. Lets several
independent repairs made in one working tree become separate 'fix:' commits."""
import re, subprocess, sys
def hunks(path):
    txt = open(path).read()
    out = []
    for f in re.split(r'(?m)^diff --git ', txt)[1:]:
        header, *hs = re.split(r'(?m)^@@ ', f)
        for h in hs:
            out.append(('diff --git ' + header, '@@ ' + h))
    return out
def main():
    path, sel, msg = sys.argv[1], sys.argv[2], sys.argv[3]
    hs = hunks(path)
    if sel == '--list':
        for i, (hd, h) in enumerate(hs):
            print(i, hd.split('\n')[0], h.split('\n')[0])
        return
    idx = [int(x) for x in sel.split(',')]
    byfile = {}
    for i in idx:
        byfile.setdefault(hs[i][0], []).append(hs[i][1])
    patch = ''.join(hd + ''.join(h) for hd, h in byfile.items())
    p = subprocess.run(['git', '-C', '/repo', 'apply', '--cached', '--recount', '-'], input=patch, text=True)
    if p.returncode:
        sys.exit(1)
    args = ['git', '-C', '/repo', 'commit', '-q', '-m', msg]
    if len(sys.argv) > 4:
        args += ['-m', sys.argv[4]]
    subprocess.check_call(args)
main()
