#!/usr/bin/env python3
"""merge_findings.py — fold /verif/known_findings.d/*.json into /verif/known_findings.json.
Usage: merge_findings.py [id=commit ...] [id=open ...]
  id=<sha>  marks the finding fixed by that /repo commit
  id=open   marks it open (KNOWN-FINDING)
Staged files whose findings were all merged are removed."""
import json, glob, os, sys
ROOT = os.path.dirname(os.path.dirname(os.path.abspath(__file__)))
main = os.path.join(ROOT, "known_findings.json")
doc = json.load(open(main))
byid = {f["id"]: f for f in doc["findings"]}
args = [a for a in sys.argv[1:] if not a.startswith("--only=")]
only = [a[7:].split(",") for a in sys.argv[1:] if a.startswith("--only=")]
only = only[0] if only else None
overrides = dict(a.split("=", 1) for a in args)
for path in sorted(glob.glob(os.path.join(ROOT, "known_findings.d", "*.json"))):
    if only is not None and os.path.basename(path)[:-5] not in only:
        continue
    staged = json.load(open(path))
    for f in staged.get("findings", []):
        byid[f["id"]] = f
        if f["id"] not in [x["id"] for x in doc["findings"]]:
            doc["findings"].append(f)
        else:
            doc["findings"] = [f if x["id"] == f["id"] else x for x in doc["findings"]]
    os.remove(path)
for f in doc["findings"]:
    o = overrides.get(f["id"])
    if o == "open":
        f["status"] = "open"
        f.pop("commit", None)
    elif o:
        f["status"] = "fixed"
        f["commit"] = o
    what = f.get("what") or f["title"]
    if f["status"] == "fixed":
        f["line"] = f"fixed: property={f['property']} {f.get('commit','PENDING')} {what}"
    else:
        f["line"] = f"KNOWN-FINDING: property={f['property']} {what}"
json.dump(doc, open(main, "w"), indent=1, ensure_ascii=False)
open(main, "a").write("\n")
pend = [f["id"] for f in doc["findings"] if f["status"] == "fixed" and f.get("commit", "PENDING") == "PENDING"]
print("findings:", len(doc["findings"]), "pending commit:", pend)
