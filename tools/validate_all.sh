#!/bin/bash
# validate_all.sh [seed ...] — run every claimed check's quick command for each seed, validate MANIFEST and
# every evidence file against the schemas, print one line per run.
cd /verif
SEEDS=${@:-20260925}
IDS=$(jq -r '.checks[].property_id' MANIFEST.json)
for s in $SEEDS; do
  for p in $IDS; do
    t0=$(date +%s)
    out=$(VERIF_SEED=$s ./check $p quick 2>&1); rc=$?
    t1=$(date +%s)
    ev=$(python3-vt - "$p" <<'PY'
import json,jsonschema,sys
p=sys.argv[1]
try:
    e=json.load(open(f'/verif/evidence/{p}.json'))
    jsonschema.validate(e, json.load(open('/root/.vp/EVIDENCE.schema.json')))
    c=e['coverage']; print(f"evidence ok evals={c['evaluations']} nontrivial={c['distinct_nontrivial']} level={e['level']}")
except Exception as ex:
    print('EVIDENCE INVALID', str(ex)[:120])
PY
)
    echo "seed=$s $p exit=$rc $((t1-t0))s $ev $(echo "$out" | grep -c '^KNOWN-FINDING') known; $(echo "$out" | grep '^VIOLATION\|^INCONCLUSIVE' | head -2 | tr '\n' ' ' | cut -c1-200)"
  done
done
python3-vt -c "
import json,jsonschema
jsonschema.validate(json.load(open('/verif/MANIFEST.json')), json.load(open('/root/.vp/MANIFEST.schema.json'))); print('MANIFEST ok')"
